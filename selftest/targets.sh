#!/bin/bash
# usage: selftest/targets.sh [seed] ["props"]  — every seeded change (seeded/w*/) and every own mutant against the quick check
# of the property it targets; prints one line per change and a summary. Re-run after generator changes: a change
# that was caught by seed luck shows up here as MISSED.
ROOT="$(cd "$(dirname "${BASH_SOURCE[0]}")/.." && pwd)"
export VERIF_SEED="${1:-1}"
ONLY="${2:-}"
miss=0; n=0
for d in "$ROOT"/seeded/w*/; do
  id="$(basename "$d")"
  prop="$(python3 -c "import json,sys;print(json.load(open(sys.argv[1]))['breaks_property'])" "$d/meta.json")"
  [ -z "$ONLY" ] || case " $ONLY " in *" $prop "*) ;; *) continue;; esac
  out="$("$ROOT/selftest/matrix.sh" "$d/patch.diff" "$prop" 2>&1 | grep "^$prop rc")"
  n=$((n+1))
  case "$out" in *"rc=1"*) v=caught;; *) v=MISSED; miss=$((miss+1));; esac
  echo "$id $prop $v ${out:0:160}"
done
for pf in "$ROOT"/selftest/mutants/own-*.patch; do
  [ -z "$ONLY" ] || case " $ONLY " in *" C13 "*) ;; *) continue;; esac
  out="$("$ROOT/selftest/matrix.sh" "$pf" C13 2>&1 | grep "^C13 rc")"
  n=$((n+1))
  case "$out" in *"rc=1"*) v=caught;; *) v=MISSED; miss=$((miss+1));; esac
  echo "$(basename "$pf" .patch) C13 $v ${out:0:160}"
done
echo "SUMMARY seed=$VERIF_SEED changes=$n missed=$miss"
