#!/bin/bash
# usage: selftest/matrix.sh <patch> [props...]   — applies the patch to a scratch copy of /repo and runs the quick checks
ROOT="$(cd "$(dirname "${BASH_SOURCE[0]}")/.." && pwd)"
PATCH="$(realpath "$1")"; shift
PROPS="${*:-C01 C02 C03 C04 C05 C06 C07 C08 C11 C12 C13 C14 C15 C16 C17 C18 C19}"
TMP="$(mktemp -d /tmp/lzmatrix-XXXXXX)"; trap 'rm -rf "$TMP"' EXIT
mkdir -p "$TMP/src"; (cd /repo && cp -r *.go go.mod go.sum suffix "$TMP/src/")
(cd "$TMP/src" && git init -q . && git apply --whitespace=nowarn "$PATCH") || { echo "patch does not apply"; exit 2; }
export GOFLAGS=-mod=mod GOPROXY=off GOSUMDB=off GOTOOLCHAIN=local
(cd "$TMP/src" && go build ./...) || { echo "patched tree does not build"; exit 2; }
det=""
for p in $PROPS; do
  LZ_SRC="$TMP/src" VERIF_EVIDENCE_DIR="$TMP/ev" VERIF_REPLAY_DIR="$TMP/rp" "$ROOT/bin/check" "$p" quick ${MATRIX_FLAGS:-} > "$TMP/log" 2>&1; rc=$?
  v="$(grep -m1 '^violation:' "$TMP/log" | cut -c1-220)"
  echo "$p rc=$rc $v"
  [ $rc -eq 1 ] && det="$det $p"
done
echo "DETECTED BY:$det"
