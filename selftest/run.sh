#!/bin/bash
# Sensitivity self-test: applies each mutant to a scratch copy of /repo and
# expects the listed quick checks to exit 1 with a VIOLATION line.
# usage: selftest/run.sh [list-file] (default selftest/mutants.txt)
ROOT="$(cd "$(dirname "${BASH_SOURCE[0]}")/.." && pwd)"
LIST="${1:-$ROOT/selftest/mutants.txt}"
OUT="$ROOT/selftest/RESULTS.md"
TMP="$(mktemp -d /tmp/lzselftest-XXXXXX)"
trap 'rm -rf "$TMP"' EXIT
echo "# Sensitivity self-test ($(date -u +%FT%TZ), /repo at $(git -C /repo rev-parse --short HEAD))" > "$OUT.new"
echo >> "$OUT.new"; echo "| mutant | property | exit | verdict | first violation |" >> "$OUT.new"; echo "|---|---|---|---|---|" >> "$OUT.new"
fail=0
while read -r patch props; do
  case "$patch" in ''|\#*) continue;; esac
  pf="$patch"; [ -f "$pf" ] || pf="$ROOT/selftest/mutants/$patch"; [ -f "$pf" ] || pf="$ROOT/$patch"
  rm -rf "$TMP/src"; mkdir -p "$TMP/src"
  (cd /repo && cp -r *.go go.mod go.sum suffix "$TMP/src/")
  if ! (cd "$TMP/src" && git init -q . 2>/dev/null; git apply --whitespace=nowarn "$pf") ; then
    echo "| $patch | - | - | PATCH DOES NOT APPLY | |" >> "$OUT.new"; fail=1; continue
  fi
  for p in $props; do
    log="$TMP/log"
    LZ_SRC="$TMP/src" VERIF_EVIDENCE_DIR="$TMP/ev" VERIF_REPLAY_DIR="$TMP/rp" "$ROOT/bin/check" "$p" quick > "$log" 2>&1
    rc=$?
    v="$(grep -m1 '^violation:' "$log" | cut -c1-160 | tr '|' '/')"
    if [ $rc -eq 1 ] && grep -q "^VIOLATION property=$p " "$log"; then verdict=detected; else verdict=MISSED; fail=1; fi
    echo "| $patch | $p | $rc | $verdict | $v |" >> "$OUT.new"
    echo "$patch $p rc=$rc $verdict"
  done
done < "$LIST"
mv "$OUT.new" "$OUT"
exit $fail
