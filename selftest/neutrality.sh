#!/bin/bash
# Instrumentation neutrality self-test:
#  1. the pinned test suite passes on the instrumented copy exactly as on /repo (31 stable tests);
#  2. sampled runs of every property give identical observations with simyield.Hook == nil and with the tick hook.
ROOT="$(cd "$(dirname "${BASH_SOURCE[0]}")/.." && pwd)"
N="${1:-400}"
export GOFLAGS=-mod=mod GOPROXY=off GOSUMDB=off GOTOOLCHAIN=local
W="$(mktemp -d /tmp/lzneu-XXXXXX)"; trap 'rm -rf "$W"' EXIT
mkdir -p "$W/lz" "$W/sim"
(cd /repo && cp -r *.go go.mod go.sum suffix testdata "$W/lz/")
"$ROOT/build/instrument" "$W/lz" || exit 2
"$ROOT/bin/baseline.sh" "$W/lz" || { echo "neutrality: pinned suite differs on the instrumented copy"; exit 1; }
rm -f "$W"/lz/*_test.go "$W"/lz/suffix/*_test.go
cp "$ROOT"/sim/*.go "$W/sim/"; printf 'module lzsim\n\ngo 1.22.0\n\nrequire github.com/ulikunitz/lz v0.0.0\n\nreplace github.com/ulikunitz/lz => ../lz\n' > "$W/sim/go.mod"; cp /repo/go.sum "$W/sim/"
(cd "$W/sim" && go build -o "$W/lzsim" .) || exit 2
fail=0
for p in C01 C02 C03 C04 C05 C06 C07 C08 C11 C12 C13 C14 C15 C16 C17 C18 C19; do
  "$W/lzsim" neutral -prop $p -runs $N | tail -1 || fail=1
done
exit $fail
