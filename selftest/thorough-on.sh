#!/bin/bash
# usage: selftest/thorough-on.sh <patch> <prop> [seed] — applies the patch to a scratch copy of /repo and runs the THOROUGH check of prop
ROOT="$(cd "$(dirname "${BASH_SOURCE[0]}")/.." && pwd)"
PATCH="$(realpath "$1")"; PROP="$2"; export VERIF_SEED="${3:-1}"
TMP="$(mktemp -d /tmp/lzthor-XXXXXX)"; trap 'rm -rf "$TMP"' EXIT
mkdir -p "$TMP/src"; (cd /repo && cp -r *.go go.mod go.sum suffix "$TMP/src/")
(cd "$TMP/src" && git init -q . && git apply --whitespace=nowarn "$PATCH") || { echo "patch does not apply"; exit 2; }
LZ_SRC="$TMP/src" VERIF_EVIDENCE_DIR="$TMP/ev" VERIF_REPLAY_DIR="$TMP/rp" "$ROOT/bin/check" "$PROP" thorough > "$TMP/log" 2>&1; rc=$?
echo "$PROP thorough rc=$rc $(grep -m1 '^violation:' "$TMP/log" | cut -c1-220)"; tail -1 "$TMP/log" | cut -c1-300
