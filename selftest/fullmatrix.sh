#!/bin/bash
# usage: selftest/fullmatrix.sh <outdir> [patch-glob...]  — every seeded change against every quick check
ROOT="$(cd "$(dirname "${BASH_SOURCE[0]}")/.." && pwd)"
OUT="$1"; shift; mkdir -p "$OUT"
LIST="$*"; [ -n "$LIST" ] || LIST="$ROOT/seeded/*/patch.diff $ROOT/selftest/mutants/own-*.patch"
for pf in $LIST; do
  name="$(basename "$(dirname "$pf")")"; case "$pf" in *own-*) name="$(basename "$pf" .patch)";; esac
  "$ROOT/selftest/matrix.sh" "$pf" > "$OUT/$name.txt" 2>&1
  echo "$name: $(grep '^DETECTED BY' "$OUT/$name.txt") ; exit2: $(grep -c 'rc=2' "$OUT/$name.txt")"
done
