#!/bin/bash
# Determinism self-test: the combined digest of the first N runs of every
# property must be identical across processes, GOMAXPROCS 1/4/16 and seeds.
# usage: selftest/determinism.sh [runs-per-property] [seeds]
ROOT="$(cd "$(dirname "${BASH_SOURCE[0]}")/.." && pwd)"
N="${1:-300}"; SEEDS="${2:-1 2 3}"
export GOFLAGS=-mod=mod GOPROXY=off GOSUMDB=off GOTOOLCHAIN=local
W="$(mktemp -d /tmp/lzdet-XXXXXX)"; trap 'rm -rf "$W"' EXIT
mkdir -p "$W/lz/suffix" "$W/sim"
cp /repo/*.go /repo/go.mod /repo/go.sum "$W/lz/"; cp /repo/suffix/*.go "$W/lz/suffix/"; rm -f "$W"/lz/*_test.go "$W"/lz/suffix/*_test.go
"$ROOT/build/instrument" "$W/lz" >/dev/null || exit 2
cp "$ROOT"/sim/*.go "$W/sim/"; printf 'module lzsim\n\ngo 1.22.0\n\nrequire github.com/ulikunitz/lz v0.0.0\n\nreplace github.com/ulikunitz/lz => ../lz\n' > "$W/sim/go.mod"; cp /repo/go.sum "$W/sim/"
(cd "$W/sim" && go build -o "$W/lzsim" .) || exit 2
fail=0; total=0
for p in C01 C02 C03 C04 C05 C06 C07 C08 C11 C12 C13 C14 C15 C16 C17 C18 C19; do
  for s in $SEEDS; do
    ref=""
    for gmp in 1 4 16; do
      for rep in 1 2; do
        out="$(GOMAXPROCS=$gmp "$W/lzsim" digest -prop $p -seed $s -runs $N)"
        total=$((total+1))
        if [ -z "$ref" ]; then ref="$out"; elif [ "$out" != "$ref" ]; then echo "MISMATCH $p seed=$s GOMAXPROCS=$gmp: $out vs $ref"; fail=1; fi
      done
    done
    echo "$ref (6 processes agree: $([ $fail = 0 ] && echo yes || echo NO))"
  done
done
echo "determinism: $total process executions, fail=$fail"
exit $fail
