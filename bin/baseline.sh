#!/bin/bash
# runs the pinned suite in DIR (default /repo) with hooks off (there are none in /repo) and prints pass/fail counts
export GOFLAGS=-mod=mod GOPROXY=off GOSUMDB=off GOTOOLCHAIN=local
DIR="${1:-/repo}"
cd "$DIR" && go test -json -vet=off -count=1 -timeout 25m ./... 2>/dev/null | python3 -c '
import sys,json
st={}
for l in sys.stdin:
    try: e=json.loads(l)
    except: continue
    if e.get("Test") and e.get("Action") in ("pass","fail"):
        st[e["Package"]+"::"+e["Test"]]=e["Action"]
base=json.load(open("/root/.vp/BASELINE.json"))
ok=[t for t in base["stable_pass"] if st.get(t)=="pass"]
bad=[t for t in base["stable_pass"] if st.get(t)!="pass"]
print("baseline: %d/%d stable tests pass; failing: %s; other failures: %s"%(len(ok),len(base["stable_pass"]),bad,sorted(t for t,a in st.items() if a=="fail" and t not in base["stable_pass"])))
sys.exit(0 if not bad else 1)
'
