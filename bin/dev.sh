#!/bin/bash
# developer helper: rebuild the simulator in /tmp/lzdev against LZ_SRC (default /repo) and run lzsim with the given args
export GOFLAGS=-mod=mod GOPROXY=off GOSUMDB=off GOTOOLCHAIN=local
W=/tmp/lzdev; SRC="${LZ_SRC:-/repo}"
rm -rf $W/lz; mkdir -p $W/lz/suffix $W/sim $W/out
cp $SRC/*.go $SRC/go.mod $SRC/go.sum $W/lz/; cp $SRC/suffix/*.go $W/lz/suffix/; rm -f $W/lz/*_test.go $W/lz/suffix/*_test.go
/verif/build/instrument $W/lz >/dev/null || exit 2
cd $W/sim; rm -f *.go; cp /verif/sim/*.go .
[ -f go.mod ] || { printf 'module lzsim\n\ngo 1.22.0\n\nrequire github.com/ulikunitz/lz v0.0.0\n\nreplace github.com/ulikunitz/lz => ../lz\n' > go.mod; cp $SRC/go.sum .; }
go build -o $W/lzsim . || exit 2
[ $# -gt 0 ] || exit 0
cd $W; exec ./lzsim "$@"
