#!/bin/bash
# developer tool (reach measurement): builds lzsim with statement coverage of the library, runs the quick tier of
# the given properties (default all) at 1/DIV of the runs and lists library statements no simulated run reached.
# usage: bin/coverage.sh [DIV] [props...]   — output: build/coverage/uncovered.txt
ROOT="$(cd "$(dirname "${BASH_SOURCE[0]}")/.." && pwd)"
export GOFLAGS=-mod=mod GOPROXY=off GOSUMDB=off GOTOOLCHAIN=local
DIV="${1:-4}"; shift
PROPS="${*:-C01 C02 C03 C04 C05 C06 C07 C08 C11 C12 C13 C14 C15 C16 C17 C18 C19}"
W="$(mktemp -d /tmp/lzcov-XXXXXX)"; [ -n "$KEEP" ] || trap 'rm -rf "$W"' EXIT; echo "work $W"
SRC="${LZ_SRC:-/repo}"
mkdir -p "$W/lz/suffix" "$W/sim" "$W/cov" "$W/tmp" "$ROOT/build/coverage"
cp "$SRC"/*.go "$SRC"/go.mod "$SRC"/go.sum "$W/lz/"; cp "$SRC"/suffix/*.go "$W/lz/suffix/"; rm -f "$W"/lz/*_test.go "$W"/lz/suffix/*_test.go
"$ROOT/build/instrument" "$W/lz" >/dev/null || exit 2
cp "$ROOT"/sim/*.go "$W/sim/"
printf 'module lzsim\n\ngo 1.22.0\n\nrequire github.com/ulikunitz/lz v0.0.0\n\nreplace github.com/ulikunitz/lz => ../lz\n' > "$W/sim/go.mod"; cp "$SRC/go.sum" "$W/sim/"
(cd "$W/sim" && go build -cover -coverpkg=github.com/ulikunitz/lz,github.com/ulikunitz/lz/suffix,lzsim -o "$W/lzsim" .) || exit 2
for p in $PROPS; do
  GOCOVERDIR="$W/cov" "$W/lzsim" run -prop "$p" -tier quick -seed "${VERIF_SEED:-1}" -workers 16 -div "$DIV" \
    -evidence "$W/tmp/$p.json" -replays "$W/tmp" -known "$ROOT/known_findings.json" -tmp "$W/tmp" > "$W/tmp/$p.log" 2>&1
  echo "$p rc=$?"
done
(cd "$W/sim" && go tool covdata textfmt -i="$W/cov" -o "$W/cov.txt") || exit 2
python3 - "$W/cov.txt" "$W/lz" > "$ROOT/build/coverage/uncovered.txt" <<'PY'
import sys,collections
cov=collections.defaultdict(int)
for l in open(sys.argv[1]):
    if l.startswith("mode:") or l.startswith("lzsim/") or "/simyield/" in l: continue
    loc,n,c=l.rsplit(' ',2); cov[loc]=max(cov[loc],int(c))
tot=len(cov); hit=sum(1 for v in cov.values() if v)
print("blocks %d covered %d (%.1f%%)"%(tot,hit,100*hit/tot))
unc=sorted(k for k,v in cov.items() if not v)
src={}
for k in unc:
    f,rng=k.split(':'); a,b=rng.split(','); l0=int(a.split('.')[0]); l1=int(b.split('.')[0])
    rel=f.split('github.com/ulikunitz/lz/')[1]
    if rel not in src: src[rel]=open(sys.argv[2]+'/'+rel).read().split('\n')
    print("== %s:%d-%d"%(rel,l0,l1))
    for i in range(l0,min(l1,l0+6)+1):
        s=src[rel][i-1]
        if 'simyield.Point' in s: continue
        print("   ",s)
PY
head -1 "$ROOT/build/coverage/uncovered.txt"
