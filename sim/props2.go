package main

import (
	"fmt"
	"math"
	"strings"

	"github.com/ulikunitz/lz"
)

// ---------------------------------------------------------------------------
// C16 clause 1: config world

var cfgInts = []int{-1 << 40, -7, -1, 0, 0, 1, 2, 3, 7, 8, 9, 16, 24, 25, 1 << 16, math.MaxInt32 - 7, math.MaxInt32,
	math.MaxUint32 - 8, math.MaxUint32 - 7, math.MaxUint32, 1 << 40, math.MaxInt64}

func genConfigTrace(r *RNG) *Trace {
	t := &Trace{World: "config"}
	k := 4 + r.Intn(8)
	for i := 0; i < k; i++ {
		p := ParserSpec{Type: parserTypes[r.Intn(len(parserTypes))]}
		v := func() int {
			if r.Chance(0.45) {
				return r.Intn(12)
			}
			return cfgInts[r.Intn(len(cfgInts))]
		}
		// mostly sane buffer fields so that the type specific checks are reached
		sane := r.Chance(0.6)
		pick := func(def int) int {
			if sane && r.Chance(0.8) {
				return def
			}
			return v()
		}
		p.BufferSize = pick(64)
		p.ShrinkSize = pick(8)
		p.WindowSize = pick(32)
		p.BlockSize = pick(16)
		p.InputLen, p.HashBits = v(), v()
		p.InputLen1, p.HashBits1, p.InputLen2, p.HashBits2 = v(), v(), v(), v()
		p.BucketSize = v()
		if r.Chance(0.3) {
			p.BucketSize = r.Pick(0, 1, 127, 128, 129, 255, 256)
		}
		p.MinMatchLen, p.MaxMatchLen = v(), v()
		p.Cost = r.pickStr("", "XZCost", "XZCost", "XZCost", "other", "xzcost", "XZCOST", " XZCost", "XZCost ")
		t.Cfgs = append(t.Cfgs, p)
	}
	return t
}

// tableBytes estimates the memory NewParser would allocate for the match
// finder tables of a defaults-completed configuration.
func tableBytes(c lz.ParserConfig) int64 {
	switch x := c.(type) {
	case *lz.HPConfig:
		return sh(x.HashBits) * 8
	case *lz.BHPConfig:
		return sh(x.HashBits) * 8
	case *lz.DHPConfig:
		return (sh(x.HashBits1) + sh(x.HashBits2)) * 8
	case *lz.BDHPConfig:
		return (sh(x.HashBits1) + sh(x.HashBits2)) * 8
	case *lz.BUPConfig:
		b := int64(x.BucketSize)
		if b < 0 || b > 1<<20 {
			return 0
		}
		return sh(x.HashBits) * (8*b + 1)
	}
	return 0
}

func sh(bits int) int64 {
	if bits < 0 || bits > 40 {
		return 0 // rejected by Verify anyway
	}
	return int64(1) << uint(bits)
}

func runConfigTrace(t *Trace, want string) *Result {
	res := newResult()
	clk := soloClock()
	for i := range t.Cfgs {
		spec := t.Cfgs[i]
		cfg, err := spec.Config()
		if err != nil {
			res.Aborted = err.Error()
			return res
		}
		var verr, perr error
		panicked := ""
		func() {
			defer func() {
				if r := recover(); r != nil {
					panicked = fmt.Sprint(r)
				}
			}()
			c := cfg.Clone()
			c.SetDefaults()
			verr = c.Verify()
			if verr == nil && tableBytes(c) > 192<<20 {
				res.Probes["cfg_not_instantiated_memory_bound"]++
				perr = nil
				return
			}
			clk.begin(0)
			var p lz.Parser
			p, perr = cfg.NewParser()
			clk.end()
			if perr == nil && p == nil {
				panicked = "NewParser returned nil, nil"
			}
			if perr != nil && p != nil {
				panicked = "NewParser returned a parser together with an error"
			}
		}()
		res.Probes["cfg_checked"]++
		ob := fmt.Sprintf("cfg %s verify=%v new=%v panic=%q", spec.String(), verr != nil, perr != nil, panicked)
		res.Obs = append(res.Obs, ob)
		res.ObsTicks = append(res.ObsTicks, clk.ticks)
		res.States[fmt.Sprintf("config|%s|ok=%v", spec.Type, verr == nil)] = true
		if panicked != "" {
			res.Viol = &Violation{Prop: "C16", Clause: "config_panic", Step: i, Msg: fmt.Sprintf("configuration %s: %s", spec.String(), panicked)}
			break
		}
		if verr == nil {
			res.Probes["cfg_accepted"]++
		} else {
			res.Probes["cfg_rejected"]++
		}
		if (verr == nil) != (perr == nil) {
			res.Viol = &Violation{Prop: "C16", Clause: "newparser_vs_verify", Step: i,
				Msg: fmt.Sprintf("configuration %s: Verify(defaults) error=%v but NewParser error=%v", spec.String(), verr, perr)}
			break
		}
		small := false
		if verr == nil {
			c := cfg.Clone()
			c.SetDefaults()
			small = tableBytes(c) <= 4<<20
		}
		if verr == nil && perr == nil && panicked == "" && small && (t.Seed+uint64(i))%2 == 0 {
			// clause 2 for arbitrary accepted field combinations: the parser
			// this configuration gives is driven through a short fixed history
			// (two feeds of repetitive data, parse to empty, Shrink, Reset with
			// data, parse again; direct mode, then wrapped)
			if v := driveAcceptedConfig(spec, t.Seed+uint64(i), res); v != nil {
				v.Step = i
				res.Viol = v
				break
			}
		}
	}
	res.Ticks = clk.ticks
	res.OpsDone = len(res.Obs)
	if res.Viol != nil && res.Viol.Prop != want {
		res.Others[res.Viol.Prop+"/"+res.Viol.Clause]++
		res.Viol = nil
	}
	return res
}

// driveAcceptedConfig runs the parser of an accepted configuration through a
// short history with the parser-world executor (all C16 clauses: panic, tick
// budget, undocumented errors, no progress) and returns its violation, if any.
func driveAcceptedConfig(spec ParserSpec, seed uint64, res *Result) *Violation {
	r := NewRNG(seed ^ 0x6472697665)
	data := genInput(r, 700, []string{"copyback", "runs", "periodic", "iid2"}[r.Intn(4)])
	parses := func(n int) []Op {
		ops := make([]Op, n)
		for i := range ops {
			ops[i] = Op{K: "Parse", Re: i%2 == 0}
			if i%3 == 2 {
				ops[i].F = lz.NoTrailingLiterals
			}
		}
		return ops
	}
	for _, target := range []string{"", "wrap"} {
		sp := spec
		sp.Target = target
		tr := &Trace{World: "parser", Prop: "C16", P: &sp, Input: data}
		if target == "wrap" {
			for i := 0; i < 40; i++ {
				tr.Ops = append(tr.Ops, Op{K: "WParse", Re: i%2 == 0})
			}
		} else {
			tr.Ops = append(tr.Ops, Op{K: "Write", N: 300})
			tr.Ops = append(tr.Ops, parses(12)...)
			tr.Ops = append(tr.Ops, Op{K: "Shrink"}, Op{K: "Write", N: 200})
			tr.Ops = append(tr.Ops, parses(8)...)
			tr.Ops = append(tr.Ops, Op{K: "Reset", N: 150, X: 1})
			tr.Ops = append(tr.Ops, parses(6)...)
		}
		sub := runParserTrace(tr, "C16", nil, 0, 0)
		res.Probes["cfg_driven"]++
		res.Ticks += sub.Ticks
		if sub.Viol != nil {
			return &Violation{Prop: "C16", Clause: "accepted_config_" + sub.Viol.Clause,
				Msg: fmt.Sprintf("configuration %s (accepted by Verify and NewParser), %s mode, operation %d: %s", spec.String(), map[string]string{"": "direct", "wrap": "wrapped"}[target], sub.Viol.Step, sub.Viol.Msg)}
		}
	}
	return nil
}

// ---------------------------------------------------------------------------
// C08: main run + metamorphic twin (chunk independence)

func planFaultFree(p *RPlan) bool {
	if p == nil {
		return true
	}
	if p.EOFEarly > 0 {
		return false
	}
	for _, e := range p.Events {
		if e.Kind != "zero" {
			return false
		}
	}
	return true
}

func runC08(t *Trace) *Result {
	res := runParserTrace(t, "C08", nil, 0, 0)
	if res.Viol != nil || res.Aborted != "" {
		return res
	}
	ff := planFaultFree(t.P.Plan)
	for _, op := range t.Ops {
		if op.K == "WReset" && !planFaultFree(op.Plan) {
			ff = false
		}
	}
	if !ff || t.P.Target != "wrap" {
		return res
	}
	twin := t.Clone()
	twin.P.Plan = nil
	for i := range twin.Ops {
		twin.Ops[i].Plan = nil
	}
	tres := runParserTrace(twin, "C08", nil, 0, 0)
	res.Probes["c08_twin_compared"]++
	if d := firstObsDiff(res, tres, false); d >= 0 {
		res.Viol = &Violation{Prop: "C08", Clause: "chunk_dependence", Step: d,
			Msg: fmt.Sprintf("operation %d: with the chunked reader %q, with a one-shot reader %q", d, obsAt(res, d), obsAt(tres, d))}
	}
	res.Ticks += tres.Ticks
	return res
}

// ---------------------------------------------------------------------------
// C13

func genC13(r *RNG, tier string, run int) *Trace {
	if run%397 == 5 {
		return genMultiBig(r)
	}
	if run%97 == 11 {
		return genC13ManyResets(r, tier == "thorough" && run%(97*1021) == 11)
	}
	if run%3 == 2 || run%12 == 0 {
		return genMultiTrace(r, tier)
	}
	if run%12 == 1 || run%12 == 7 || run%12 == 10 {
		return genC13Echo(r, tier)
	}
	pg := defaultPGen()
	pg.wNil = 2
	pg.wReset = 0
	pg.wResetData = 0
	pg.wReadAt = 1
	pg.nOps = 40
	pg.plan = planOpts{chunk: true, faults: r.Chance(0.3)}
	if r.Chance(0.3) {
		// trickle feeding: Parse is called again and again with one to three
		// unparsed bytes at the very end of the data (where hash values reach
		// into the margin behind the data)
		pg.trickle = 0.85
		pg.wWrite, pg.wReadFrom = 6, 3
	}
	lowEntropy := []string{"iid1", "iid2", "iid3", "periodic", "runs", "zeroheavy", "copyback", "fib", "thue"}
	t := genParserTrace(r, tier, ptOpts{types: parserTypes, pg: pg, families: lowEntropy,
		tweak: func(r *RNG, p *ParserSpec) {
			// short hash inputs for the double hash parsers in a third of the runs
			if (p.Type == "DHP" || p.Type == "BDHP") && r.Chance(0.35) {
				p.InputLen1 = r.Range(2, 3)
				p.InputLen2 = r.Range(p.InputLen1+1, 5)
				p.HashBits1, p.HashBits2 = r.Range(1, 4), r.Range(1, 4)
				return
			}
			// hash tables of every size, also much larger than the data (a
			// reset that clears only "what can be in use" shows only there)
			if r.Chance(0.25) {
				hbFor := func(il int) int { return r.Range(1, min(8*il, 14)) }
				switch p.Type {
				case "HP", "BHP":
					p.InputLen = r.Range(3, 8)
					p.HashBits = hbFor(p.InputLen)
				case "BUP":
					p.InputLen = r.Range(3, 8)
					p.HashBits = r.Range(1, 12)
				case "DHP", "BDHP":
					p.InputLen1 = r.Range(2, 6)
					p.InputLen2 = r.Range(p.InputLen1+1, 8)
					p.HashBits1 = hbFor(p.InputLen1)
					p.HashBits2 = hbFor(p.InputLen2)
				}
				return
			}
			// tiny hash tables and long hash inputs so that stale entries are hit
			if r.Chance(0.6) {
				switch p.Type {
				case "HP", "BHP", "BUP":
					p.InputLen = r.Range(4, 8)
					p.HashBits = r.Range(1, 3)
				case "DHP", "BDHP":
					p.InputLen1 = r.Range(3, 6)
					p.InputLen2 = r.Range(p.InputLen1+1, 8)
					p.HashBits1 = r.Range(1, 3)
					p.HashBits2 = r.Range(1, 3)
				}
			}
		}})
	t.Prop = "C13"
	// prefix history H = generated ops; then Reset(nil|data); then suffix T
	bc := t.P.defaults()
	reset := Op{K: "Reset"}
	if r.Chance(0.6) {
		reset.N = r.Intn(bc.BufferSize + 1)
		reset.X = r.Pick(1, 2, 3, 4)
	}
	if r.Chance(0.35) {
		// the last call before the Reset is a Parse that leaves work behind
		// (positions indexed beyond the parse position, literals cut off)
		t.Ops = append(t.Ops, Op{K: "Write", N: 3 + r.Intn(40)}, Op{K: "Parse", F: lz.NoTrailingLiterals, Re: r.Chance(0.5)})
	}
	oldInput := t.Input
	echo := r.Chance(0.2)
	if echo {
		// echo stratum: execute the prefix once to learn which bytes the buffer
		// retains at the moment of the Reset; the data fed after the Reset is a
		// mutated copy of exactly those bytes, position for position, so that
		// whatever survives the Reset (table entries, ranks, edges, offsets) is
		// looked up again and points at slightly different content
		pre := runParserTrace(t, "C13", nil, 0, 0)
		if pre.Aborted == "" && len(pre.EndRetained) > 0 && pre.EndCursor <= len(t.Input) {
			w := append([]byte(nil), pre.EndRetained...)
			rate := []float64{0, 0.02, 0.1, 0.3}[r.Intn(4)]
			for i := range w {
				if r.Chance(rate) {
					w[i] = pre.EndRetained[r.Intn(len(w))]
				}
			}
			if r.Chance(0.3) {
				w = append(w, w...)
			}
			t.Input = append(append([]byte(nil), t.Input[:pre.EndCursor]...), w...)
			oldInput = nil
		}
	}
	t.ResetAt = len(t.Ops)
	t.Ops = append(t.Ops, reset)
	pg2 := pg
	pg2.nOps = 30
	rest := len(t.Input)
	suffix := genParserOps(r, t.P, pg2, rest)
	t.Ops = append(t.Ops, suffix...)
	// make sure there is input for the suffix: append fresh low-entropy bytes
	extra := genInput(r, bc.BufferSize*2+r.Intn(bc.BufferSize+1), lowEntropy[r.Intn(len(lowEntropy))])
	if len(extra) > 8000 {
		extra = extra[:8000]
	}
	switch x := r.Float(); {
	case len(oldInput) == 0:
	case x < 0.3:
		// same bytes again: stale positions would point at equal content
		extra = append(append([]byte(nil), oldInput[:min(len(oldInput), len(extra))]...), extra...)
	case x < 0.6:
		// a mutated copy of a window of the old bytes: stale entries are hit
		// (equal hashed prefixes) but point at different content
		a := 0
		if r.Chance(0.5) {
			a = r.Intn(len(oldInput))
		}
		w := append([]byte(nil), oldInput[a:min(len(oldInput), a+len(extra)+1)]...)
		rate := []float64{0.02, 0.08, 0.25}[r.Intn(3)]
		for i := range w {
			if r.Chance(rate) {
				w[i] = oldInput[r.Intn(len(oldInput))]
			}
		}
		extra = append(w, extra...)
	}
	t.Input = append(t.Input, extra...)
	return t
}

// genC13Echo is the stratum of oracle 1 that is built to make state that
// survives a Reset visible: tables either tiny or much larger than the data
// (a reset that clears only what "can be in use" matters only there); the
// history ends in one of the situations in which a parser has indexed more or
// less than it has parsed (NoTrailingLiterals cut, Parse(nil), unparsed data,
// Shrink); the data fed after the Reset is, position for position, a mutated
// copy of the bytes the buffer retained at the Reset (stale entries are looked
// up again but point at slightly different content), followed by a verbatim
// copy of them (every old string occurs again later).
func genC13Echo(r *RNG, tier string) *Trace {
	pg := defaultPGen()
	pg.wNil = 1
	pg.wReset = 0
	pg.wResetData = 0
	pg.wReadAt = 0
	pg.nOps = 6 + r.Intn(30)
	pg.plan = planOpts{chunk: true}
	// all entropies: with few distinct strings a stale entry is overwritten
	// before it is hit, with many it is never looked up by accident
	lowEntropy := []string{"iid2", "iid3", "iid4", "iid16", "iid16", "iid256", "periodic", "runs", "zeroheavy", "copyback", "copyback256", "copyback256", "copyback256", "fib", "debruijn"}
	t := genParserTrace(r, tier, ptOpts{types: parserTypes, pg: pg, families: lowEntropy, classW: []int{5, 70, 25, 0},
		tweak: func(r *RNG, p *ParserSpec) {
			if r.Chance(0.7) && p.ShrinkSize > p.BufferSize/2 {
				p.ShrinkSize = r.Intn(p.BufferSize/2 + 1)
			}
			bs := p.BufferSize
			if bs == 0 {
				bs = 4096
			}
			big := 4 // table >= 16 * buffer
			for 1<<big < 16*bs && big < 16 {
				big++
			}
			hbFor := func(il int) int {
				if r.Chance(0.5) {
					return min(8*il, big)
				}
				return r.Range(1, 3)
			}
			long := r.Chance(0.7)
			switch p.Type {
			case "HP", "BHP", "BUP":
				if long {
					p.InputLen = r.Range(4, 8)
				}
				if p.InputLen == 0 {
					p.InputLen = 3
				}
				p.HashBits = hbFor(p.InputLen)
				if p.Type == "BUP" && p.HashBits > 12 {
					p.HashBits = 12
				}
			case "DHP", "BDHP":
				if long || p.InputLen1 == 0 {
					p.InputLen1 = r.Range(3, 6)
					p.InputLen2 = r.Range(p.InputLen1+1, 8)
				}
				p.HashBits1 = hbFor(p.InputLen1)
				p.HashBits2 = hbFor(p.InputLen2)
			}
		}})
	t.Prop = "C13"
	bc := t.P.defaults()
	// Ending of the history, built adaptively (the generator executes the
	// prefix to learn the model state; the resulting trace is explicit):
	// drain and shrink, then feed an exact repeat of retained bytes followed by
	// fresh bytes (so that the last block has a match and trailing literals),
	// then stop in one of the situations in which indexed and parsed positions
	// differ.
	il := maxInt(maxInt(t.P.InputLen, t.P.InputLen2), maxInt(t.P.MinMatchLen, 3))
	if r.Chance(0.8) {
		pre1 := runParserTrace(t, "C13", nil, 0, 0)
		if pre1.Aborted == "" {
			k := (pre1.EndUnparsed + maxInt(bc.BlockSize, 1) - 1) / maxInt(bc.BlockSize, 1)
			for ; k > 0 && len(t.Ops) < 200; k-- {
				t.Ops = append(t.Ops, Op{K: "Parse", Re: true})
			}
			t.Ops = append(t.Ops, Op{K: "Shrink"})
			pre2 := runParserTrace(t, "C13", nil, 0, 0)
			ret := pre2.EndRetained
			free := bc.BufferSize - len(ret)
			if pre2.Aborted == "" && pre2.EndCursor <= len(t.Input) && len(ret) > il+2 && free >= 2*il+4 {
				m := il + 2 + r.Intn(24)
				lits := il + r.Intn(il+8)
				if m+lits > free {
					m, lits = free-il-1, il+1
				}
				if m+lits > bc.BlockSize && bc.BlockSize >= 2*il+4 {
					m, lits = bc.BlockSize-il-1, il+1
				}
				if m > len(ret) {
					m = len(ret)
				}
				a := r.Intn(len(ret) - m + 1)
				feed := append([]byte(nil), ret[a:a+m]...)
				for i := 0; i < lits; i++ {
					feed = append(feed, byte(r.Intn(256)))
				}
				t.Input = append(append([]byte(nil), t.Input[:pre2.EndCursor]...), feed...)
				t.Ops = append(t.Ops, Op{K: "Write", N: len(feed)})
			}
		}
	} else {
		t.Ops = append(t.Ops, Op{K: "Write", N: 8 + r.Intn(min(bc.BufferSize/2+1, 200))})
	}
	switch r.Intn(6) {
	case 0, 1, 2:
		t.Ops = append(t.Ops, Op{K: "Parse", F: lz.NoTrailingLiterals, Re: r.Chance(0.5)})
	case 3:
		t.Ops = append(t.Ops, Op{K: "ParseNil"})
	case 4:
		t.Ops = append(t.Ops, Op{K: "Parse", Re: r.Chance(0.5)})
	}
	pre := runParserTrace(t, "C13", nil, 0, 0)
	if pre.Aborted == "" && len(pre.EndRetained) > 0 && pre.EndCursor <= len(t.Input) {
		old := pre.EndRetained
		w := append([]byte(nil), old...)
		rate := []float64{0.03, 0.1, 0.25}[r.Intn(3)]
		for i := range w {
			if r.Chance(rate) {
				w[i] = old[r.Intn(len(old))]
			}
		}
		// ... followed by a verbatim copy of (the tail of) the old bytes
		tail := len(old)
		if r.Chance(0.6) {
			tail = 1 + r.Intn(min(len(old), 96))
		}
		w = append(w, old[len(old)-tail:]...)
		w = append(w, genInput(r, r.Intn(min(bc.BufferSize, 4000)+1), lowEntropy[r.Intn(len(lowEntropy))])...)
		if lim := 12000; (t.P.Type == "GSAP" || t.P.Type == "OSAP") && len(w) > lim {
			w = w[:lim]
		}
		t.Input = append(append([]byte(nil), t.Input[:pre.EndCursor]...), w...)
	}
	reset := Op{K: "Reset"}
	if r.Chance(0.5) {
		reset.N = r.Intn(bc.BufferSize + 1)
		if r.Chance(0.5) {
			reset.N = len(pre.EndRetained)
		}
		reset.X = r.Pick(1, 2, 3, 4)
	}
	t.ResetAt = len(t.Ops)
	t.Ops = append(t.Ops, reset)
	if r.Chance(0.7) {
		// feed everything that fits and parse it completely first
		t.Ops = append(t.Ops, Op{K: "Write", N: bc.BufferSize})
		for i := 1 + r.Intn(4); i > 0; i-- {
			t.Ops = append(t.Ops, Op{K: "Parse", Re: true})
		}
	}
	pg2 := pg
	pg2.wNil = 0
	pg2.nOps = 30
	pg2.overfill = 0.2
	t.Ops = append(t.Ops, genParserOps(r, t.P, pg2, len(t.Input)-pre.EndCursor)...)
	t.Note += " echo"
	return t
}

// genMultiBig is the volume stratum of the multi world: two instances of one
// parser type, each fed 70 to 150 KiB at once, parsed, Reset and fed again, so
// that state shared between instances that only exists at this size (pooled
// or cached large arrays) is exercised. Interleaving at the granularity the
// scheduler provides.
func genMultiBig(r *RNG) *Trace {
	typ := parserTypes[r.Intn(len(parserTypes))]
	t := &Trace{World: "multi", Prop: "C13"}
	spec := ParserSpec{Type: typ, BufferSize: r.Pick(1<<17, 1<<18, 1<<20), BlockSize: r.Pick(0, 1<<16)}
	spec.ShrinkSize = spec.BufferSize / 4
	if typ == "GSAP" || typ == "OSAP" {
		spec.MinMatchLen = 3
	}
	for i := 0; i < 2; i++ {
		sp := spec
		n := r.Range(70_000, 150_000)
		if typ == "OSAP" {
			n = r.Range(66_000, 80_000)
		}
		in := genInput(r, n, r.pickStr("copyback256", "copyback", "iid16"))
		var ops []Op
		ops = append(ops, Op{K: "Write", N: n * 2 / 3})
		for j := 0; j < 3; j++ {
			ops = append(ops, Op{K: "Parse", Re: true})
		}
		ops = append(ops, Op{K: "Reset"}, Op{K: "Write", N: n / 3})
		for j := 0; j < 2; j++ {
			ops = append(ops, Op{K: "Parse", Re: true})
		}
		t.Tasks = append(t.Tasks, &Trace{World: "parser", P: &sp, Input: in, Ops: ops})
	}
	return t
}

func genMultiTrace(r *RNG, tier string) *Trace {
	k := 2 + r.Intn(3)
	t := &Trace{World: "multi", Prop: "C13"}
	for i := 0; i < k; i++ {
		if r.Chance(0.2) {
			dt := genDecoderTrace(r, dgen{nOps: 15, sizes: "fit", readBias: 5, resetW: 1})
			t.Tasks = append(t.Tasks, dt)
			continue
		}
		pg := defaultPGen()
		pg.nOps = 14 + r.Intn(20)
		pg.wReadAt = 0
		pg.wShrink = 5
		pg.plan = planOpts{chunk: true}
		pt := genParserTrace(r, tier, ptOpts{types: parserTypes, pg: pg, classW: []int{50, 50, 0, 0}, wrapShare: 0.2,
			families: []string{"iid2", "iid3", "copyback", "periodic", "runs", "fib"},
			tweak: func(r *RNG, p *ParserSpec) {
				// small tables: every entry matters for the next matches
				if r.Chance(0.6) {
					p.HashBits, p.HashBits1, p.HashBits2 = r.Range(1, 3), r.Range(1, 3), r.Range(1, 3)
				}
				if p.ShrinkSize > p.BufferSize/2 {
					p.ShrinkSize = p.BufferSize / 2
				}
			}})
		if len(pt.Input) > 900 {
			pt.Input = pt.Input[:900]
		}
		t.Tasks = append(t.Tasks, pt)
	}
	// same-type pair: shared scratch between two instances of one type is the
	// likeliest interference
	if r.Chance(0.7) && t.Tasks[0].World == "parser" {
		c := t.Tasks[0].Clone()
		if r.Chance(0.5) {
			c.Input = genInput(r, len(c.Input), "iid3")
		}
		t.Tasks[len(t.Tasks)-1] = c
		if len(t.Tasks) > 2 && r.Chance(0.5) {
			t.Tasks[1] = t.Tasks[0].Clone()
		}
	}
	return t
}

func runC13(t *Trace) *Result {
	if t.World == "multi" {
		return checkMulti(t, "C13", NewRNG(t.Seed^0x5bd1e995))
	}
	a := runParserTrace(t, "C13", nil, 0, 0)
	res := a
	// oracle 2: determinism (same process; cross-process is checked by the driver via digests)
	a2 := runParserTrace(t, "C13", nil, 0, 0)
	res.Probes["c13_determinism_compared"]++
	if firstObsDiff(a, a2, false) < 0 && firstObsDiff(a, a2, true) >= 0 {
		res.Probes["rerun_ticks_differ_only"]++
	}
	if d := firstObsDiff(a, a2, false); d >= 0 {
		res.Viol = &Violation{Prop: "C13", Clause: "nondeterministic", Step: d,
			Msg: fmt.Sprintf("the same trace executed twice differs at operation %d: %q vs %q (ticks %d vs %d)", d, obsAt(a, d), obsAt(a2, d), tickAt(a, d), tickAt(a2, d))}
		return res
	}
	if t.ResetAt <= 0 || t.ResetAt >= len(t.Ops) || len(a.Cursors) <= t.ResetAt || len(a.Obs) <= t.ResetAt {
		return res
	}
	if t.Ops[t.ResetAt].K != "Reset" || !strings.HasSuffix(a.Obs[t.ResetAt], "err=nil") {
		// a refused Reset leaves the used parser as it was: not the premise of the property
		return res
	}
	// oracle 1: fresh twin executes Ops[ResetAt:] from the same input position
	b := runParserTrace(t, "C13", nil, t.ResetAt, a.Cursors[t.ResetAt])
	res.Probes["c13_reset_compared"]++
	if a.Probes["shrink_discarded"] > 0 && a.Probes["buffer_full"] > 0 {
		res.NonTrivial = true
	}
	suffix := &Result{Obs: a.Obs[t.ResetAt:], Aborted: a.Aborted}
	if d := firstObsDiff(suffix, b, false); d >= 0 {
		res.Viol = &Violation{Prop: "C13", Clause: "reset_not_equivalent", Step: t.ResetAt + d,
			Msg: fmt.Sprintf("%s: operation %d after Reset: used parser observed %q, new parser observed %q", t.P.Type, d, obsAt(suffix, d), obsAt(b, d))}
	}
	return res
}

func tickAt(r *Result, i int) int64 {
	if i < len(r.ObsTicks) {
		return r.ObsTicks[i]
	}
	return -1
}

// ---------------------------------------------------------------------------
// C07

// genC07Default is the all-default pairing: a hash parser and a Decoder whose
// configurations leave WindowSize zero (8 MiB), the decoder with a lone
// BufferSize between 8 and 16 MiB or none; the input is a random record, several
// MiB of zeros and the record again, so that the parser emits a match several
// MiB back (the zeros leave the record's hash entries alone).
func genC07Default(r *RNG) *Trace {
	spec := ParserSpec{Type: r.pickStr("HP", "BHP", "DHP", "BDHP"), Target: "wrap"}
	d := DecoderSpec{Target: "decoder", BufferSize: r.Pick(0, 0, 9<<20, 12<<20, 8<<20+1, 16<<20-1)}
	rec := genInput(r, r.Pick(4<<10, 64<<10), "iid256")
	gap := r.Range(4<<20+1, 8<<20-len(rec)-1024)
	in := make([]byte, 0, 2*len(rec)+gap+16)
	in = append(in, rec...)
	in = append(in, make([]byte, gap)...)
	in = append(in, rec...)
	in = append(in, genInput(r, 16, "iid4")...)
	t := &Trace{World: "pipe", P: &spec, D: &d, Input: in, Ops: []Op{{K: "Parse"}}}
	t.Note = fmt.Sprintf("default-geometry gap=%d", gap)
	return t
}

func genC07(r *RNG, tier string, run int) *Trace {
	if run%2003 == 7 {
		return genC07Default(r)
	}
	if run%53 == 9 {
		// long match stratum through the pipe: single matches of 64 KiB and
		// more, offsets beyond 64 KiB, into a Decoder with the same window
		t := genLongMatch(r, []string{"HP", "BHP", "DHP", "BDHP", "BUP", "GSAP"})
		if t.P.WindowSize == 0 {
			t.P.WindowSize = t.P.BufferSize
		}
		ws := t.P.WindowSize
		t.World = "pipe"
		t.D = &DecoderSpec{Target: "decoder", WindowSize: ws, BufferSize: r.Pick(0, 0, 2*ws, ws+1+r.Intn(ws), 2*ws+r.Intn(ws))}
		t.P.Target = "wrap"
		t.P.Plan = genRPlan(r, len(t.Input), planOpts{chunk: r.Chance(0.5)})
		t.Ops = []Op{{K: "Parse"}}
		return t
	}
	if run%797 == 5 {
		// windows of 1 MiB and more, a first literal run of 1 MiB and more
		return genDecoderTrace(r, dgen{target: "decoder", nOps: 20, sizes: "fit", readBias: 3, resetW: 1, geomClass: "mega"})
	}
	if run%4 == 3 {
		// synthetic well-formed streams straight into a Decoder
		g := dgen{target: "decoder", nOps: 25, sizes: "fit", readBias: 3, resetW: 1}
		if run%8 == 7 {
			g.sizes = "any" // oversize items: known-finding territory
		}
		return genDecoderTrace(r, g)
	}
	typ := parserTypes[r.Intn(len(parserTypes))]
	class := []string{"tiny", "small", "medium"}[r.Weighted([]int{40, 50, 10})]
	spec := genParserSpec(r, typ, class)
	bc0 := spec.defaults()
	// explicit window so that the decoder can be paired
	if spec.WindowSize == 0 {
		spec.WindowSize = bc0.BufferSize
	}
	safe := run%4 != 2 // ~70%: every item <= WS and BS >= 2*WS
	ws := spec.WindowSize
	if typ == "GSAP" && ws < 8 {
		ws = 8
		spec.WindowSize = ws
	}
	if safe {
		if spec.BlockSize == 0 || spec.BlockSize > ws {
			spec.BlockSize = 1 + r.Intn(ws)
		}
	} else if r.Chance(0.7) {
		spec.BlockSize = ws + 1 + r.Intn(3*ws+2)
	}
	d := DecoderSpec{Target: "decoder", WindowSize: ws}
	if safe {
		switch r.Intn(3) {
		case 0:
			d.BufferSize = 0
		case 1:
			d.BufferSize = 2 * ws
		default:
			d.BufferSize = 2*ws + r.Intn(2*ws+4)
		}
	} else {
		switch r.Intn(4) {
		case 0:
			d.BufferSize = 0
		case 1:
			d.BufferSize = ws + 1
		case 2:
			d.BufferSize = ws + 1 + r.Intn(ws)
		default:
			d.BufferSize = ws + 1 + r.Intn(3*ws+2)
		}
	}
	spec.Target = "wrap"
	spec.Plan = genRPlan(r, 100, planOpts{chunk: r.Chance(0.5)})
	if class == "medium" && spec.ShrinkSize > spec.BufferSize/2 {
		// a refill of one byte at a time re-bases the whole table for every
		// byte: kept for the tiny and small classes only
		spec.ShrinkSize = spec.BufferSize / 2
	}
	bc := spec.defaults()
	n := inputLenFor(r, bc.BufferSize, class)
	if (typ == "GSAP" || typ == "OSAP") && n > 4000 {
		n = 4000
	}
	fam := []string{"runs", "iid1", "copyback", "periodic", "iid2", "iid4", "zeroprefix_runs", "iid256", "fib"}[r.Intn(9)]
	t := &Trace{World: "pipe", P: &spec, D: &d, Input: genInput(r, n, fam)}
	t.Note = fmt.Sprintf("class=%s family=%s safe=%v", class, fam, safe)
	k := 1 + r.Intn(4)
	for i := 0; i < k; i++ {
		op := Op{K: "Parse"}
		if r.Chance(0.3) {
			op.F = lz.NoTrailingLiterals
		}
		t.Ops = append(t.Ops, op)
	}
	if run%4 == 1 && typ != "GSAP" && typ != "OSAP" || run%16 == 5 {
		// write-fed: the caller copies chunks into the parser (one reused
		// chunk buffer) and parses what is buffered, instead of Wrap
		spec.Target, spec.Plan = "write", nil
		for i := range t.Ops {
			t.Ops[i].N = r.Pick(1, 2, 3, 8, 64, 1+r.Intn(bc.BufferSize), bc.BufferSize, bc.BufferSize+r.Intn(8))
			t.Ops[i].X = r.Pick(0, 0, 1, 2)
		}
	}
	return t
}

// genC13ManyResets: one parser instance reused for 255 to 520 short messages,
// each handed over with Reset(data) and parsed; message j+256 is a lightly
// mutated copy of message j, so that whatever a parser keeps "per Reset" in a
// narrow counter or generation stamp meets its own past. The fresh twin of
// oracle 1 starts at the last Reset.
func genC13ManyResets(r *RNG, huge bool) *Trace {
	typ := parserTypes[r.Intn(len(parserTypes))]
	if r.Chance(0.25) {
		typ = "BUP" // the dictionary with the most per-bucket state
	}
	if huge {
		typ = r.pickStr("OSAP", "OSAP", "GSAP", "BUP", "HP", "DHP")
	}
	spec := genParserSpec(r, typ, "small")
	spec.Target, spec.Plan = "", nil
	if spec.BufferSize != 0 && spec.BufferSize < 128 {
		spec.BufferSize = 128 + r.Intn(200)
		if spec.ShrinkSize >= spec.BufferSize {
			spec.ShrinkSize = spec.BufferSize / 2
		}
	}
	switch typ {
	case "HP", "BHP":
		spec.InputLen, spec.HashBits = r.Range(3, 6), r.Range(6, 14)
	case "BUP":
		spec.InputLen, spec.HashBits, spec.BucketSize = r.Range(3, 6), r.Range(8, 16), r.Pick(1, 2, 4, 4)
	case "DHP", "BDHP":
		spec.HashBits1, spec.HashBits2 = r.Range(6, 12), r.Range(6, 12)
	}
	k := r.Pick(255, 256, 257, 258, 300, 513, 520)
	if huge {
		// a 16-bit counter meets its past (thorough tier only: minutes per run)
		k = 65536 + r.Intn(600)
		if spec.BufferSize != 0 && spec.BufferSize < 4500 {
			spec.BufferSize = 4500 + r.Intn(4000)
			if spec.ShrinkSize >= spec.BufferSize {
				spec.ShrinkSize = spec.BufferSize / 2
			}
		}
		spec.BlockSize = 0
	}
	base := genInput(r, r.Range(20, 80), "iid4")
	msgs := make([][]byte, k+1)
	t := &Trace{World: "parser", Prop: "C13", P: &spec}
	t.Note = fmt.Sprintf("many resets k=%d", k)
	for j := range msgs {
		src, rate := base, 0.12
		if j >= 256 {
			src, rate = msgs[j-256], 0.03
		}
		m := append([]byte(nil), src...)
		if j >= 256 {
			// the same strings again, some of them damaged where they stood
			// and intact further back
			m = m[:len(base)]
			rate = 0.1
		}
		for i := range m {
			if r.Chance(rate) {
				m[i] = byte(0x80 + r.Intn(64))
			}
		}
		if j >= 256 {
			a := r.Intn(len(base))
			m = append(m, src[a:min(len(src), a+8+r.Intn(24))]...)
		}
		if huge && (j < 40 || j > k-700 || j > 65500 && j < 65600) && r.Chance(0.3) {
			// some long records early, around the wrap and at the end
			if j < 40 {
				m = genInput(r, r.Range(2000, 4000), r.pickStr("iid4", "copyback", "iid16")) // many edges
			} else {
				m = genInput(r, r.Range(1000, 3500), "iid256") // hardly any
				copy(m[len(m)/2:], m[10:50])
			}
		}
		msgs[j] = m
		t.Input = append(t.Input, m...)
		if j == k {
			t.ResetAt = len(t.Ops)
		}
		t.Ops = append(t.Ops, Op{K: "Reset", N: len(m), X: r.Pick(0, 1, 2, 3, 4)})
		for i := 1 + r.Intn(2); i > 0; i-- {
			t.Ops = append(t.Ops, Op{K: "Parse", Re: r.Chance(0.7)})
		}
	}
	return t
}
