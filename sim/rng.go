package main

// Private PRNG: splitmix64 for seed derivation, xoshiro256** for streams. No
// dependence on math/rand internals, so a seed means the same run on every Go
// release.

type RNG struct{ s [4]uint64 }

func splitmix(x *uint64) uint64 {
	*x += 0x9e3779b97f4a7c15
	z := *x
	z = (z ^ (z >> 30)) * 0xbf58476d1ce4e5b9
	z = (z ^ (z >> 27)) * 0x94d049bb133111eb
	return z ^ (z >> 31)
}

// hashStr is FNV-1a 64.
func hashStr(s string) uint64 {
	h := uint64(14695981039346656037)
	for i := 0; i < len(s); i++ {
		h ^= uint64(s[i])
		h *= 1099511628211
	}
	return h
}

// RunSeed derives the seed of run i of property prop under VERIF_SEED seed.
func RunSeed(seed uint64, prop string, run int) uint64 {
	x := seed ^ (hashStr(prop) * 0x9e3779b97f4a7c15) ^ (uint64(run)+1)*0xd1342543de82ef95
	a := splitmix(&x)
	b := splitmix(&x)
	return a ^ (b << 1)
}

func NewRNG(seed uint64) *RNG {
	r := &RNG{}
	x := seed
	for i := range r.s {
		r.s[i] = splitmix(&x)
	}
	return r
}

func rotl(x uint64, k uint) uint64 { return (x << k) | (x >> (64 - k)) }

func (r *RNG) U64() uint64 {
	s := &r.s
	res := rotl(s[1]*5, 7) * 9
	t := s[1] << 17
	s[2] ^= s[0]
	s[3] ^= s[1]
	s[1] ^= s[2]
	s[0] ^= s[3]
	s[2] ^= t
	s[3] = rotl(s[3], 45)
	return res
}

// Intn returns a value in [0,n). n <= 0 yields 0.
func (r *RNG) Intn(n int) int {
	if n <= 1 {
		return 0
	}
	return int(r.U64() % uint64(n))
}

// Range returns a value in [lo,hi].
func (r *RNG) Range(lo, hi int) int {
	if hi <= lo {
		return lo
	}
	return lo + r.Intn(hi-lo+1)
}

func (r *RNG) Float() float64 { return float64(r.U64()>>11) / float64(1<<53) }

func (r *RNG) Chance(p float64) bool { return r.Float() < p }

func (r *RNG) Pick(xs ...int) int { return xs[r.Intn(len(xs))] }

// Weighted returns an index drawn proportionally to w.
func (r *RNG) Weighted(w []int) int {
	t := 0
	for _, x := range w {
		t += x
	}
	if t <= 0 {
		return 0
	}
	k := r.Intn(t)
	for i, x := range w {
		if k < x {
			return i
		}
		k -= x
	}
	return len(w) - 1
}

// Fork derives an independent generator.
func (r *RNG) Fork() *RNG { return NewRNG(r.U64()) }
