package main

import (
	"time"
)

// Shrinker: delta debugging over the operation list, then arguments, input,
// configuration, fault plans and schedule. A candidate is kept iff it still
// produces a violation of the same property and clause.

type shrinker struct {
	p        *Prop
	clause   string
	best     *Trace
	bestV    *Violation
	tries    int
	maxTries int
	deadline time.Time
}

func execTrace(p *Prop, t *Trace) (res *Result) {
	return p.Exec(t)
}

func (s *shrinker) try(c *Trace) bool {
	if s.tries >= s.maxTries || time.Now().After(s.deadline) {
		return false
	}
	s.tries++
	res := safeExec(s.p, c)
	if res == nil || res.Viol == nil || res.Viol.Clause != s.clause {
		return false
	}
	s.best = c
	s.bestV = res.Viol
	return true
}

// safeExec guards against harness panics on malformed shrink candidates.
func safeExec(p *Prop, t *Trace) (res *Result) {
	defer func() {
		if r := recover(); r != nil {
			res = nil
		}
	}()
	return execTrace(p, t.Clone())
}

func shrinkTrace(p *Prop, t *Trace, v *Violation, budget time.Duration) (*Trace, *Violation) {
	s := &shrinker{p: p, clause: v.Clause, best: t.Clone(), bestV: v, maxTries: 3000, deadline: time.Now().Add(budget)}
	for round := 0; round < 3; round++ {
		before := s.tries
		sizeBefore := traceSize(s.best)
		if s.best.World == "multi" {
			s.shrinkMulti()
		} else {
			s.shrinkOps()
			s.shrinkArgs()
			s.shrinkInput()
			s.shrinkConfig()
		}
		if traceSize(s.best) >= sizeBefore || s.tries == before {
			break
		}
	}
	return s.best, s.bestV
}

func traceSize(t *Trace) int {
	n := len(t.Ops)*4 + len(t.Input) + len(t.Cfgs)*4
	for _, op := range t.Ops {
		n += len(op.Lits) + 3*len(op.Seqs)
		if op.Plan != nil {
			n += 2 + len(op.Plan.Events) + len(op.Plan.Cuts)
		}
	}
	for _, tk := range t.Tasks {
		n += traceSize(tk) + 10
	}
	if t.Sched != nil {
		n += len(t.Sched.Segs)
	}
	return n
}

// removeOps returns a copy of t without ops [i,j), keeping ResetAt consistent;
// nil if the range covers the reset op.
func removeOps(t *Trace, i, j int) *Trace {
	if t.ResetAt > 0 && i <= t.ResetAt && t.ResetAt < j {
		return nil
	}
	c := t.Clone()
	c.Ops = append(c.Ops[:i:i], c.Ops[j:]...)
	if t.ResetAt > 0 && j <= t.ResetAt {
		c.ResetAt -= j - i
		if c.ResetAt <= 0 {
			return nil
		}
	}
	return c
}

func (s *shrinker) shrinkOps() {
	if len(s.best.Cfgs) > 1 {
		// config world: drop configurations
		for i := len(s.best.Cfgs) - 1; i >= 0 && len(s.best.Cfgs) > 1; i-- {
			c := s.best.Clone()
			c.Cfgs = append(c.Cfgs[:i:i], c.Cfgs[i+1:]...)
			s.try(c)
		}
		return
	}
	// drop everything after the failing step first
	if s.bestV.Step+1 < len(s.best.Ops) && s.best.World != "pipe" {
		if c := removeOps(s.best, s.bestV.Step+1, len(s.best.Ops)); c != nil {
			s.try(c)
		}
	}
	chunk := len(s.best.Ops) / 2
	for chunk >= 1 && !s.done() {
		progress := false
		for i := 0; i+chunk <= len(s.best.Ops) && !s.done(); {
			c := removeOps(s.best, i, i+chunk)
			if c != nil && s.try(c) {
				progress = true
				continue
			}
			i += chunk
			if s.tries >= s.maxTries {
				return
			}
		}
		if !progress || chunk == 1 {
			chunk /= 2
		}
		if chunk == 0 {
			break
		}
	}
}

func (s *shrinker) shrinkArgs() {
	for i := 0; i < len(s.best.Ops) && !s.done(); i++ {
		op := s.best.Ops[i]
		mod := func(f func(o *Op)) bool {
			c := s.best.Clone()
			f(&c.Ops[i])
			return s.try(c)
		}
		if op.Plan != nil {
			if !mod(func(o *Op) { o.Plan = nil }) {
				s.shrinkPlan(func(t *Trace) **RPlan { return &t.Ops[i].Plan })
			}
		}
		if op.WP != nil {
			mod(func(o *Op) { o.WP = nil })
		}
		for _, nv := range []int{0, 1, op.N / 2, op.N - 1} {
			if nv >= 0 && nv < s.best.Ops[i].N {
				mod(func(o *Op) { o.N = nv })
			}
		}
		if op.X != 0 {
			mod(func(o *Op) { o.X = 0 })
		}
		if op.Re {
			mod(func(o *Op) { o.Re = false })
		}
		for len(s.best.Ops[i].Seqs) > 0 {
			removed := false
			for j := len(s.best.Ops[i].Seqs) - 1; j >= 0; j-- {
				if mod(func(o *Op) { o.Seqs = append(o.Seqs[:j:j], o.Seqs[j+1:]...) }) {
					removed = true
					break
				}
			}
			if !removed {
				break
			}
		}
		for j := range s.best.Ops[i].Seqs {
			sq := s.best.Ops[i].Seqs[j]
			if sq.L > 0 {
				mod(func(o *Op) { o.Seqs[j].L = sq.L / 2 })
			}
			if sq.M > 1 {
				mod(func(o *Op) { o.Seqs[j].M = sq.M / 2 })
			}
		}
		if n := len(s.best.Ops[i].Lits); n > 0 {
			for _, k := range []int{0, n / 2, n - 1} {
				if k < len(s.best.Ops[i].Lits) {
					mod(func(o *Op) { o.Lits = o.Lits[:k] })
				}
			}
		}
	}
	if s.best.P != nil && s.best.P.Plan != nil {
		c := s.best.Clone()
		c.P.Plan = nil
		if !s.try(c) {
			s.shrinkPlan(func(t *Trace) **RPlan { return &t.P.Plan })
		}
	}
	if s.best.D != nil && s.best.D.WPlan != nil {
		c := s.best.Clone()
		c.D.WPlan = nil
		if !s.try(c) {
			for j := len(s.best.D.WPlan.Events) - 1; j >= 0; j-- {
				c := s.best.Clone()
				ev := c.D.WPlan.Events
				c.D.WPlan.Events = append(ev[:j:j], ev[j+1:]...)
				s.try(c)
			}
		}
	}
}

func (s *shrinker) shrinkPlan(get func(t *Trace) **RPlan) {
	cur := *get(s.best)
	if cur == nil {
		return
	}
	tryMod := func(f func(p *RPlan)) {
		c := s.best.Clone()
		pp := get(c)
		if *pp == nil {
			return
		}
		f(*pp)
		s.try(c)
	}
	tryMod(func(p *RPlan) { p.Cuts = nil })
	tryMod(func(p *RPlan) { p.ByteFrom, p.ByteTo = 0, 0 })
	tryMod(func(p *RPlan) { p.MaxChunk = 0 })
	tryMod(func(p *RPlan) { p.EOFWithData = false })
	tryMod(func(p *RPlan) { p.EOFEarly = 0 })
	for j := len(cur.Events) - 1; j >= 0; j-- {
		j := j
		tryMod(func(p *RPlan) {
			if j < len(p.Events) {
				p.Events = append(p.Events[:j:j], p.Events[j+1:]...)
			}
		})
	}
}

func (s *shrinker) shrinkInput() {
	for len(s.best.Input) > 0 && !s.done() {
		n := len(s.best.Input)
		ok := false
		for _, k := range []int{n / 2, n - n/4, n - 1} {
			if k < n {
				c := s.best.Clone()
				c.Input = c.Input[:k]
				if s.try(c) {
					ok = true
					break
				}
			}
		}
		if !ok {
			break
		}
	}
	// simplify bytes: map to a small alphabet preserving equality structure is
	// not attempted; try zeroing the tail half
}

func (s *shrinker) shrinkConfig() {
	if s.best.P == nil {
		return
	}
	fields := func(p *ParserSpec) []*int {
		return []*int{&p.BufferSize, &p.ShrinkSize, &p.WindowSize, &p.BlockSize, &p.HashBits, &p.HashBits1, &p.HashBits2, &p.BucketSize, &p.MaxMatchLen}
	}
	for fi := range fields(s.best.P) {
		for iter := 0; iter < 12; iter++ {
			cur := *fields(s.best.P)[fi]
			if cur <= 1 {
				break
			}
			ok := false
			for _, nv := range []int{cur / 2, cur - 1} {
				if nv >= 1 && nv < cur {
					c := s.best.Clone()
					*fields(c.P)[fi] = nv
					if s.try(c) {
						ok = true
						break
					}
				}
			}
			if !ok {
				break
			}
		}
	}
}

func (s *shrinker) shrinkMulti() {
	// drop tasks (remap the schedule)
	for i := len(s.best.Tasks) - 1; i >= 0 && len(s.best.Tasks) > 1 && !s.done(); i-- {
		c := s.best.Clone()
		c.Tasks = append(c.Tasks[:i:i], c.Tasks[i+1:]...)
		if c.Sched != nil {
			var segs []Seg
			for _, sg := range c.Sched.Segs {
				if sg.Task == i {
					continue
				}
				if sg.Task > i {
					sg.Task--
				}
				segs = append(segs, sg)
			}
			c.Sched.Segs = segs
		}
		s.try(c)
	}
	// drop trailing ops of every task
	for ti := range s.best.Tasks {
		for len(s.best.Tasks[ti].Ops) > 1 && !s.done() {
			n := len(s.best.Tasks[ti].Ops)
			ok := false
			for _, k := range []int{n / 2, n - 1} {
				c := s.best.Clone()
				c.Tasks[ti].Ops = c.Tasks[ti].Ops[:k]
				if s.try(c) {
					ok = true
					break
				}
			}
			if !ok {
				break
			}
		}
	}
	// simplify the schedule: drop chunks of segments (ddmin style)
	if s.best.Sched != nil {
		chunk := len(s.best.Sched.Segs) / 2
		for chunk >= 1 && !s.done() {
			progress := false
			for i := 0; i+chunk <= len(s.best.Sched.Segs) && !s.done(); {
				c := s.best.Clone()
				c.Sched.Segs = append(c.Sched.Segs[:i:i], c.Sched.Segs[i+chunk:]...)
				if s.try(c) {
					progress = true
					continue
				}
				i += chunk
			}
			if !progress || chunk == 1 {
				chunk /= 2
			}
		}
	}
}

func (s *shrinker) done() bool {
	return s.tries >= s.maxTries || time.Now().After(s.deadline)
}
