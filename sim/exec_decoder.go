package main

import (
	"bytes"
	"fmt"
	"io"
	"math"

	"github.com/ulikunitz/lz"
)

// decodersim: one client task drives a real DecoderBuffer or Decoder through
// a generated operation trace; the environment is a SimWriter with a fault
// plan; the reference model is the LZ77 expansion of everything reported as
// written since the last Reset and the count of bytes handed out.

type dexec struct {
	nilStart int // writer (0, nil) answers before the current call
	t        *Trace
	want     string
	res      *Result
	spec     DecoderSpec
	step     int
	clk      *taskClock

	buf *lz.DecoderBuffer
	dec *lz.Decoder
	wr  *SimWriter

	ws, bs   int
	ref      []byte // reference expansion since last Reset
	handed   []byte // bytes handed out since last Reset, in order
	sinkSeen int    // len(wr.sink) already accounted in handed
	noBudget bool
	refused  bool // a size refusal happened (C07 territory): stop judging acceptance
}

func (x *dexec) fail(prop, clause, sig, format string, a ...interface{}) {
	msg := fmt.Sprintf(format, a...)
	if prop == x.want {
		if x.res.Viol == nil {
			x.res.Viol = &Violation{Prop: prop, Clause: clause, Msg: msg, Step: x.step, Sig: sig}
		}
		panic(stopRun{})
	}
	x.res.Others[prop+"/"+clause]++
}

func (x *dexec) abort(reason string) {
	if x.res.Aborted == "" {
		x.res.Aborted = reason
	}
	panic(stopRun{})
}

func (x *dexec) probe(n string) { x.res.Probes[n]++ }

func (x *dexec) budget(arg int) int64 {
	return 50_000_000 + 4000*int64(x.bs+arg)
}

func (x *dexec) call(budget int64, f func()) (panicked string, hang bool) {
	clk := x.clk
	if x.noBudget {
		budget = 0
	}
	clk.begin(budget)
	defer func() {
		used := clk.end()
		if used > x.res.MaxCall {
			x.res.MaxCall = used
			x.res.MaxCallBud = budget
		}
		if r := recover(); r != nil {
			if _, ok := r.(stopRun); ok {
				panic(r)
			}
			if tb, ok := r.(tickBudgetExceeded); ok {
				panicked = fmt.Sprintf("no return within %d ticks", tb.budget)
				hang = true
				return
			}
			if _, ok := r.(writerCallsExceeded); ok {
				panicked = "unbounded number of writer calls"
				hang = true
				return
			}
			panicked = fmt.Sprint(r)
			if len(panicked) > 200 {
				panicked = panicked[:200]
			}
		}
	}()
	f()
	return "", false
}

type writerCallsExceeded struct{}

func (x *dexec) libPanic(op, p string, hang bool) {
	if hang {
		x.fail("C06", "hang", "", "%s: %s (WindowSize %d, BufferSize %d)", op, p, x.ws, x.bs)
		x.fail("C07", "not_accepted", "", "%s of a well-formed stream did not return: %s (WindowSize %d, BufferSize %d)", op, p, x.ws, x.bs)
		x.abort("hang in " + op)
	}
	x.fail("C05", "panic", "", "%s panicked: %s", op, p)
	x.fail("C07", "not_accepted", "", "%s of a well-formed stream panicked: %s (WindowSize %d, BufferSize %d)", op, p, x.ws, x.bs)
	x.abort("panic in " + op + ": " + p)
}

func runDecoderTrace(t *Trace, want string, clk *taskClock) (res *Result) {
	res = newResult()
	x := &dexec{t: t, want: want, res: res, spec: *t.D, clk: clk}
	if clk == nil {
		x.clk = soloClock()
	}
	defer func() {
		res.Ticks = x.clk.ticks
		res.OpsDone = x.step
		if r := recover(); r != nil {
			if _, ok := r.(stopRun); ok {
				return
			}
			panic(r)
		}
	}()
	x.setup()
	for i := range t.Ops {
		x.step = i
		ob := x.do(&t.Ops[i])
		res.Obs = append(res.Obs, ob)
		res.ObsTicks = append(res.ObsTicks, x.clk.ticks)
		x.invariants()
		res.States[x.abstractState(&t.Ops[i])] = true
	}
	x.step = len(t.Ops)
	x.final()
	return res
}

func (x *dexec) abstractState(op *Op) string {
	cls := func(v, max int) string {
		switch {
		case v <= 0:
			return "0"
		case v >= max:
			return "full"
		case 2*v < max:
			return "lo"
		}
		return "hi"
	}
	unread := len(x.ref) - len(x.handed)
	return fmt.Sprintf("%s|total=%s|unread=%s|%s", x.spec.Target, cls(len(x.ref), x.ws), cls(unread, x.bs-x.ws), op.K)
}

func (x *dexec) setup() {
	cfg := lz.DecoderConfig{WindowSize: x.spec.WindowSize, BufferSize: x.spec.BufferSize}
	d := cfg
	d.SetDefaults()
	x.ws, x.bs = d.WindowSize, d.BufferSize
	x.wr = NewSimWriter(x.spec.WPlan, x.res.Fired)
	var err error
	if x.spec.Target == "decoder" {
		pn, hang := x.call(50_000_000, func() { x.dec, err = lz.NewDecoder(x.wr, cfg) })
		if pn != "" {
			x.libPanic("NewDecoder", pn, hang)
		}
	} else {
		x.buf = new(lz.DecoderBuffer)
		pn, hang := x.call(50_000_000, func() { err = x.buf.Init(cfg) })
		if pn != "" {
			x.libPanic("DecoderBuffer.Init", pn, hang)
		}
	}
	if err != nil {
		x.abort("config rejected: " + err.Error())
	}
}

func (x *dexec) lim(total int) int {
	if total < x.ws {
		return total
	}
	return x.ws
}

// account moves bytes newly accepted by the writer to the handed-out stream.
func (x *dexec) accountSink() {
	if len(x.wr.sink) > x.sinkSeen {
		x.handed = append(x.handed, x.wr.sink[x.sinkSeen:]...)
		x.sinkSeen = len(x.wr.sink)
	}
}

// invariants checked after every operation.
func (x *dexec) invariants() {
	x.accountSink()
	// handed-out stream is a prefix of the reference
	if len(x.handed) > len(x.ref) || !bytes.Equal(x.handed, x.ref[:len(x.handed)]) {
		d := firstDiff(x.handed, x.ref)
		x.fail("C04", "output_mismatch", "", "bytes handed out differ from the reference expansion at stream position %d (handed %d, written %d)", d, len(x.handed), len(x.ref))
		x.fail("C18", "sink_not_prefix", "", "writer received bytes that are not a prefix of the reference expansion (first difference at %d)", d)
		x.fail("C17", "counts_vs_output", "", "output differs from the expansion implied by the reported counts at %d", d)
		x.fail("C05", "state_after_reject", "", "output differs from the expansion of the reported (k,l) at %d", d)
		x.fail("C07", "sink_differs", "", "the decoder accepted the stream but its output differs from the original bytes at %d", d)
		x.abort("output mismatch")
	}
	if x.buf != nil {
		b := x.buf
		if b.Off != int64(len(x.ref)) {
			x.fail("C17", "off", "", "DecoderBuffer.Off=%d, bytes written since Init/Reset=%d", b.Off, len(x.ref))
		}
		if b.R < 0 || b.R > len(b.Data) {
			x.fail("C04", "cursor_out_of_range", "", "R=%d outside Data (len %d)", b.R, len(b.Data))
			x.abort("cursor out of range")
		}
		unread := len(x.ref) - len(x.handed)
		if len(b.Data)-b.R != unread || !bytes.Equal(b.Data[b.R:], x.ref[len(x.handed):]) {
			x.fail("C04", "unread_lost", "", "buffer holds %d unread bytes, reference has %d unread (or content differs)", len(b.Data)-b.R, unread)
			x.fail("C17", "counts_vs_buffer", "", "buffer content differs from the expansion implied by the reported counts")
			x.fail("C05", "state_after_reject", "", "buffer content differs from the expansion of the reported (k,l)")
			x.abort("unread bytes lost")
		}
		lim := x.lim(len(x.ref))
		if len(b.Data) < lim || !bytes.Equal(b.Data[len(b.Data)-lim:], x.ref[len(x.ref)-lim:]) {
			x.fail("C04", "window_lost", "", "the most recent min(WindowSize,total)=%d bytes are not retained (buffer holds %d)", lim, len(b.Data))
			x.abort("window lost")
		}
		if b.R > 0 && b.R < len(b.Data) {
			x.probe("partial_read_cursor")
		}
	}
}

func (x *dexec) do(op *Op) string {
	switch op.K {
	case "WByte":
		return x.doWByte(op)
	case "Write":
		return x.doWrite(op)
	case "WMatch":
		return x.doWMatch(op)
	case "WBlock":
		return x.doWBlock(op)
	case "Read":
		return x.doRead(op)
	case "WriteTo", "Flush":
		return x.doFlush(op)
	case "ByteAtEnd":
		return x.doByteAtEnd(op)
	case "Reset":
		return x.doReset(op)
	}
	x.abort("unknown op " + op.K)
	return ""
}

// writerErr classifies err against the faults the writer raised during the
// current call: ok=true if err is exactly one of them.
func (x *dexec) checkWriterErr(opName string, faultsBefore int, err error) (isWriter bool) {
	raised := x.wr.faults > faultsBefore
	isW := err == io.ErrShortWrite || isSimErr(err)
	if raised {
		x.probe("writer_fault_during_" + opName)
		if err == nil {
			x.fail("C18", "writer_error_swallowed", "", "%s: the writer failed during the call but the call returned nil", opName)
		} else if err != x.wr.lastErr && !x.wr.raisedDuring(faultsBefore, err) {
			x.fail("C18", "writer_error_replaced", "", "%s: the writer failed with %s but the call returned %s", opName, errName(x.wr.lastErr), errName(err))
		}
		return true
	}
	if isW {
		x.fail("C18", "writer_error_invented", "", "%s returned %s although the writer did not fail during the call", opName, errName(err))
		return true
	}
	return false
}

// sizeRefusal handles an error on a VALID item: either a legitimate
// ErrFullBuffer of a DecoderBuffer, or a refusal that C04 / C07 judge.
// g is the number of bytes the refused item would append.
func (x *dexec) validRefused(opName string, g int, err error) {
	small := g <= x.ws && g <= x.bs-x.ws
	if x.buf != nil && err == lz.ErrFullBuffer {
		x.probe("buffer_full_refusal")
		// C04 does not judge whether a DecoderBuffer's refusal was necessary
		// (the statement does not promise it): the stream must merely be
		// unchanged, which the invariants check.
		return
	}
	sig := ""
	switch {
	case err != lz.ErrFullBuffer && g > x.ws:
		sig = "oversize_item_gt_window"
	case err == lz.ErrFullBuffer && g > x.bs-x.ws:
		sig = "full_item_gt_buffer_minus_window"
	}
	x.refused = true
	x.probe("valid_item_refused")
	if small {
		x.fail("C04", "valid_rejected", "", "%s: valid item of %d bytes (<= WindowSize %d and <= BufferSize-WindowSize %d) rejected with %s", opName, g, x.ws, x.bs-x.ws, errName(err))
	}
	x.fail("C07", "valid_refused", sig, "%s: well-formed item of %d bytes refused with %s (WindowSize %d, BufferSize %d)", opName, g, errName(err), x.ws, x.bs)
}

func (x *dexec) wrCallsStart() int { x.nilStart = x.wr.nilAns; return x.wr.calls }

func (x *dexec) wrCallsCheck(opName string, start, bound int) {
	// every (0, nil) answer of the writer may cost the call two more attempts
	bound += 2 * (x.wr.nilAns - x.nilStart)
	if x.wr.calls-start > bound {
		x.fail("C06", "writer_calls_unbounded", "", "%s invoked the writer %d times (bound %d)", opName, x.wr.calls-start, bound)
	}
}

func (x *dexec) armWriterLimit(bound int) { x.wr.limit = x.wr.calls + bound + 1000 }

// --- WriteByte ---------------------------------------------------------------

func (x *dexec) doWByte(op *Op) string {
	c := byte(op.X)
	var err error
	fb := x.wr.faults
	cs := x.wrCallsStart()
	x.armWriterLimit(3)
	pn, hang := x.call(x.budget(1), func() {
		if x.buf != nil {
			err = x.buf.WriteByte(c)
		} else {
			err = x.dec.WriteByte(c)
		}
	})
	if pn != "" {
		x.libPanic("WriteByte", pn, hang)
	}
	x.wrCallsCheck("WriteByte", cs, 3)
	if err == nil {
		x.ref = append(x.ref, c)
	} else if !x.checkWriterErr("WriteByte", fb, err) {
		x.validRefused("WriteByte", 1, err)
	}
	if err == nil && x.wr.faults > fb {
		x.checkWriterErr("WriteByte", fb, err)
	}
	return fmt.Sprintf("WByte(%d) err=%s", c, errName(err))
}

// --- Write -------------------------------------------------------------------

func (x *dexec) doWrite(op *Op) string {
	src := op.Lits
	p := append([]byte(nil), src...)
	total := 0
	var lastErr error
	retries := 0
	for {
		var n int
		var err error
		fb := x.wr.faults
		cs := x.wrCallsStart()
		x.armWriterLimit(2 + len(p))
		// the caller's chunk buffer is reused (overwritten) after the call
		q := append(make([]byte, 0, len(p)+8), p...)
		pn, hang := x.call(x.budget(len(p)), func() {
			if x.buf != nil {
				n, err = x.buf.Write(q)
			} else {
				n, err = x.dec.Write(q)
			}
		})
		for i := range q {
			q[i] ^= 0x5a
		}
		if pn != "" {
			x.libPanic(fmt.Sprintf("Write(%d bytes)", len(p)), pn, hang)
		}
		x.wrCallsCheck("Write", cs, 2+len(p))
		if len(p) > x.bs-x.ws {
			x.probe("arg_gt_bs_minus_ws")
		}
		if len(p) > x.bs {
			x.probe("arg_gt_bs")
		}
		if n < 0 || n > len(p) {
			x.fail("C17", "write_n", "", "Write(%d bytes) returned n=%d", len(p), n)
			x.abort("Write returned impossible n")
		}
		if x.buf != nil && n != 0 && n != len(p) {
			x.fail("C17", "write_n", "", "DecoderBuffer.Write(%d bytes) returned n=%d (must be all or nothing)", len(p), n)
		}
		if err == nil && n != len(p) {
			x.fail("C17", "write_n", "", "Write(%d bytes) returned n=%d with nil error", len(p), n)
		}
		x.ref = append(x.ref, p[:n]...)
		total += n
		lastErr = err
		x.invariantsLight()
		if err == nil {
			if x.wr.faults > fb {
				x.checkWriterErr("Write", fb, err)
			}
			break
		}
		if x.checkWriterErr("Write", fb, err) {
			// C18 protocol: retry the unconsumed remainder
			p = p[n:]
			retries++
			if op.Re && retries < 100 {
				x.probe("retry_write")
				continue
			}
			break
		}
		x.validRefused("Write", len(p)-n, err)
		break
	}
	if !bytes.Equal(append([]byte(nil), src...), op.Lits) {
		x.abort("harness corrupted op")
	}
	return fmt.Sprintf("Write(%d) n=%d err=%s", len(src), total, errName(lastErr))
}

// invariantsLight: prefix check only (used between retries).
func (x *dexec) invariantsLight() {
	x.accountSink()
	if len(x.handed) > len(x.ref) || !bytes.Equal(x.handed, x.ref[:len(x.handed)]) {
		x.invariants()
	}
}

// --- resolving model-relative sequences ------------------------------------------

func clampU32(v int64) uint32 {
	if v < 0 {
		return 0
	}
	if v > math.MaxUint32 {
		return math.MaxUint32
	}
	return uint32(v)
}

// resolveOffset returns the offset for a valid match given the window limit.
func resolveOffset(sel float64, lim int) uint32 {
	if lim <= 0 {
		return 0
	}
	if sel < 0 {
		sel = 0
	}
	if sel > 1 {
		sel = 1
	}
	o := 1 + int(sel*float64(lim-1)+0.5)
	if o > lim {
		o = lim
	}
	if o < 1 {
		o = 1
	}
	return uint32(o)
}

// resolveBlock builds the lz.Block of a WBlock op against the model state and
// reports the index of the first malformed sequence (-1 if none) with its kind.
func (x *dexec) resolveBlock(op *Op) (blk lz.Block, firstBad int, kind string) {
	firstBad = -1
	lits := append([]byte(nil), op.Lits...)
	remaining := len(lits)
	total := len(x.ref)
	for i, ss := range op.Seqs {
		L := int64(ss.L)
		if L < 0 {
			L = 0
		}
		if L > int64(remaining) {
			L = int64(remaining)
		}
		badHere := ""
		switch ss.Bad {
		case "litlen":
			d := ss.D
			if d < 1 {
				d = 1
			}
			L = int64(remaining) + d
			badHere = "litlen"
		case "rawlit":
			L = int64(clampU32(ss.D))
			if L > int64(remaining) {
				badHere = "rawlit"
			}
		}
		M := int64(ss.M)
		if M < 0 {
			M = 0
		}
		var O uint32
		if badHere == "" {
			lim := x.lim(total + int(L))
			if lim == 0 {
				M = 0
			}
			O = resolveOffset(ss.Sel, lim)
			switch ss.Bad {
			case "off0":
				O = 0
				if M == 0 {
					M = 1
				}
				badHere = "off0"
			case "offbig":
				d := ss.D
				if d < 1 {
					d = 1
				}
				O = clampU32(int64(lim) + d)
				if int64(O) > int64(lim) {
					badHere = "offbig"
				}
			case "rawoff":
				O = clampU32(ss.D)
				if M == 0 && lim > 0 {
					M = int64(ss.M)
				}
				if (O == 0 && M > 0) || int64(O) > int64(lim) {
					badHere = "rawoff"
				}
			}
		} else {
			O = 1
		}
		blk.Sequences = append(blk.Sequences, lz.Seq{LitLen: clampU32(L), MatchLen: clampU32(M), Offset: O})
		if badHere != "" {
			if firstBad < 0 {
				firstBad = i
				kind = badHere
			}
			continue
		}
		if firstBad < 0 {
			total += int(L) + int(M)
			remaining -= int(L)
		}
	}
	blk.Literals = lits
	return blk, firstBad, kind
}

// applySeqs appends the expansion of seqs (taking literals from lits) to ref.
func applySeq(ref []byte, s lz.Seq, lits []byte) []byte {
	ref = append(ref, lits[:s.LitLen]...)
	o := int(s.Offset)
	for j := 0; j < int(s.MatchLen); j++ {
		ref = append(ref, ref[len(ref)-o])
	}
	return ref
}

// --- WriteBlock ----------------------------------------------------------------

func (x *dexec) doWBlock(op *Op) string {
	blk, firstBad, kind := x.resolveBlock(op)
	return x.writeBlock(blk, firstBad, kind, op.Re)
}

func (x *dexec) writeBlock(blk lz.Block, firstBad int, kind string, retry bool) string {
	orig := cloneBlock(&blk)
	seqs := blk.Sequences
	lits := blk.Literals
	sumBytes := len(lits)
	for _, s := range seqs {
		sumBytes += int(s.MatchLen)
		if int(s.LitLen)+int(s.MatchLen) > x.bs-x.ws {
			x.probe("seq_gt_bs_minus_ws")
		}
		if s.Offset > 0 && s.Offset < s.MatchLen {
			x.probe("overlap_copy")
			if s.MatchLen > 4*s.Offset {
				x.probe("overlap_copy_doubling")
			}
		}
	}
	if firstBad >= 0 {
		x.probe("malformed_" + kind)
		if firstBad > 0 {
			x.probe("malformed_after_valid_prefix")
		}
		if len(x.ref) > 0 {
			x.probe("malformed_in_nonempty_buffer")
		}
	}
	K, Ltot, Ntot := 0, 0, 0
	var lastErr error
	retries := 0
	base := 0 // index of first sequence of the current (retry) call
	for {
		call := lz.Block{Sequences: seqs[base:], Literals: lits[Ltot:]}
		var n, k, l int
		var err error
		fb := x.wr.faults
		cs := x.wrCallsStart()
		dataBefore, rBefore := 0, 0
		if x.buf != nil {
			dataBefore, rBefore = len(x.buf.Data), x.buf.R
		}
		wb := 2 + len(call.Sequences) + sumBytes
		if sumBytes > 1<<24 {
			wb = 1 << 24
		}
		x.armWriterLimit(wb)
		// work is bounded by the literals handed over plus one buffer per
		// sequence, whatever lengths the sequences claim (a claimed length of
		// 2^24 must not buy a spinning call half an hour of budget)
		work := len(call.Literals) + (len(call.Sequences)+1)*x.bs
		if sumBytes >= 0 && sumBytes < work {
			work = sumBytes
		}
		pn, hang := x.call(x.budget(work), func() {
			if x.buf != nil {
				n, k, l, err = x.buf.WriteBlock(call)
			} else {
				n, k, l, err = x.dec.WriteBlock(call)
			}
		})
		if pn != "" {
			x.libPanic(fmt.Sprintf("WriteBlock(%d sequences, %d literals)", len(call.Sequences), len(call.Literals)), pn, hang)
		}
		x.wrCallsCheck("WriteBlock", cs, wb)
		lastErr = err
		// caller's block untouched
		if !blocksEqual(&orig, &lz.Block{Sequences: seqs, Literals: lits}) {
			x.fail("C05", "caller_block_modified", "", "WriteBlock modified the caller's block contents")
			x.abort("caller block modified")
		}
		if k < 0 || k > len(call.Sequences) || l < 0 || l > len(call.Literals) {
			x.fail("C17", "kl_out_of_range", "", "WriteBlock returned k=%d l=%d for %d sequences / %d literals", k, l, len(call.Sequences), len(call.Literals))
			x.abort("k/l out of range")
		}
		// malformed handling (C05)
		relBad := -1
		if firstBad >= 0 {
			relBad = firstBad - base
		}
		if relBad >= 0 {
			if err == nil {
				x.fail("C05", "malformed_accepted", "", "block with malformed sequence %d (%s: %+v) accepted without error", firstBad, kind, seqs[firstBad])
				x.abort("malformed accepted")
			}
			if k > relBad {
				x.fail("C05", "malformed_consumed", "", "malformed sequence %d (%s) reported as consumed (k=%d)", firstBad, kind, base+k)
				x.abort("malformed consumed")
			}
		}
		// literal accounting
		sumL := 0
		for _, s := range call.Sequences[:k] {
			sumL += int(s.LitLen)
		}
		if l < sumL {
			x.fail("C17", "l_too_small", "", "WriteBlock consumed %d sequences claiming %d literals but reports l=%d", k, sumL, l)
			x.abort("l too small")
		}
		if k < len(call.Sequences) && l != sumL {
			prop := "C17"
			if relBad >= 0 {
				prop = "C05"
			}
			x.fail(prop, "partial_sequence", "", "WriteBlock stopped at sequence %d but reports l=%d, the %d consumed sequences claim %d literals (part of the failing sequence consumed)", base+k, l, k, sumL)
			x.fail("C17", "partial_sequence", "", "l=%d does not match the %d consumed sequences (%d)", l, k, sumL)
			x.abort("partial sequence")
		}
		// apply to the model
		before := len(x.ref)
		cl := call.Literals
		for _, s := range call.Sequences[:k] {
			x.ref = applySeq(x.ref, s, cl)
			cl = cl[s.LitLen:]
		}
		if k == len(call.Sequences) {
			x.ref = append(x.ref, cl[:l-sumL]...)
		}
		appended := len(x.ref) - before
		if n != appended {
			x.fail("C17", "n", "", "WriteBlock returned n=%d but (k=%d,l=%d) append %d bytes", n, k, l, appended)
		}
		if x.buf != nil && appended > 0 && (len(x.buf.Data) < dataBefore+appended) {
			x.probe("decoder_shrink_inside_call")
			if rBefore > 0 {
				x.probe("shrink_with_read_bytes")
			}
		}
		if err != nil && appended > 0 {
			x.probe("early_error_with_progress")
		}
		K += k
		Ltot += l
		Ntot += n
		base += k
		x.invariantsLight()
		if err == nil {
			if k != len(call.Sequences) || Ltot != len(lits) {
				x.fail("C17", "incomplete_without_error", "", "WriteBlock returned nil but consumed %d/%d sequences and %d/%d literals", K, len(seqs), Ltot, len(lits))
				x.fail("C04", "incomplete_without_error", "", "WriteBlock returned nil but consumed %d/%d sequences and %d/%d literals", K, len(seqs), Ltot, len(lits))
				x.fail("C07", "accepted_incomplete", "", "WriteBlock returned nil for a well-formed block but consumed only %d/%d sequences and %d/%d literals", K, len(seqs), Ltot, len(lits))
			}
			if x.wr.faults > fb {
				x.checkWriterErr("WriteBlock", fb, err)
			}
			break
		}
		if x.checkWriterErr("WriteBlock", fb, err) {
			retries++
			if retry && retries < 100 {
				x.probe("retry_writeblock")
				continue
			}
			break
		}
		if relBad >= 0 && k == relBad {
			x.probe("malformed_rejected")
			break
		}
		// error on a valid item
		g := 0
		if k < len(call.Sequences) {
			g = int(call.Sequences[k].LitLen) + int(call.Sequences[k].MatchLen)
		} else {
			g = len(call.Literals) - l
		}
		x.validRefused("WriteBlock", g, err)
		break
	}
	return fmt.Sprintf("WBlock(%d seqs,%d lits) n=%d k=%d l=%d err=%s", len(seqs), len(lits), Ntot, K, Ltot, errName(lastErr))
}

// --- WriteMatch (DecoderBuffer only) -------------------------------------------

func (x *dexec) doWMatch(op *Op) string {
	if x.buf == nil {
		return "skip"
	}
	lim := x.lim(len(x.ref))
	m := int64(op.N)
	if m < 0 {
		m = 0
	}
	o := resolveOffset(op.Sel, lim)
	bad := ""
	switch op.Bad {
	case "off0":
		o = 0
		if m == 0 {
			m = 1
		}
		bad = "off0"
	case "offbig":
		d := int64(op.X)
		if d < 1 {
			d = 1
		}
		o = clampU32(int64(lim) + d)
		bad = "offbig"
	case "rawoff":
		o = clampU32(int64(op.X))
		if (o == 0 && m > 0) || int64(o) > int64(lim) {
			bad = "rawoff"
		}
	default:
		if lim == 0 {
			m = 0
		}
	}
	if op.Sel >= 1 && bad == "" && lim > 0 {
		x.probe("window_probe_at_limit")
	}
	var n int
	var err error
	mwork := x.bs // all or nothing: a match longer than the buffer is refused
	if int64(m) >= 0 && int64(m) < int64(mwork) {
		mwork = int(m)
	}
	pn, hang := x.call(x.budget(mwork), func() { n, err = x.buf.WriteMatch(clampU32(m), o) })
	if pn != "" {
		x.libPanic(fmt.Sprintf("WriteMatch(m=%d,o=%d)", m, o), pn, hang)
	}
	ob := fmt.Sprintf("WMatch(m=%d,o=%d) n=%d err=%s", m, o, n, errName(err))
	if bad != "" {
		x.probe("malformed_match_" + bad)
		if err == nil {
			x.fail("C05", "malformed_accepted", "", "WriteMatch(m=%d, o=%d) with window limit %d accepted", m, o, lim)
			x.abort("malformed accepted")
		}
		if n != 0 {
			x.fail("C05", "malformed_consumed", "", "WriteMatch(m=%d, o=%d) rejected but n=%d", m, o, n)
			x.abort("malformed consumed")
		}
		return ob
	}
	if err != nil {
		if n != 0 {
			x.fail("C17", "match_n", "", "WriteMatch returned n=%d together with %s", n, errName(err))
			x.abort("n with error")
		}
		x.validRefused("WriteMatch", int(m), err)
		return ob
	}
	if int64(n) != m {
		x.fail("C17", "match_n", "", "WriteMatch(m=%d) returned n=%d", m, n)
		x.abort("WriteMatch n mismatch")
	}
	if int64(o) < m && o > 0 {
		x.probe("overlap_copy")
		if m > 4*int64(o) {
			x.probe("overlap_copy_doubling")
		}
	}
	for j := int64(0); j < m; j++ {
		x.ref = append(x.ref, x.ref[len(x.ref)-int(o)])
	}
	return ob
}

// --- Read (DecoderBuffer only) --------------------------------------------------

func (x *dexec) doRead(op *Op) string {
	if x.buf == nil {
		return "skip"
	}
	p := make([]byte, op.N)
	var n int
	var err error
	pn, hang := x.call(x.budget(op.N), func() { n, err = x.buf.Read(p) })
	if pn != "" {
		x.libPanic("Read", pn, hang)
	}
	unread := len(x.ref) - len(x.handed)
	want := op.N
	if unread < want {
		want = unread
	}
	if n != want || err != nil {
		x.fail("C04", "read_count", "", "Read(%d) with %d unread bytes returned (%d, %s), want (%d, nil)", op.N, unread, n, errName(err), want)
		if n < 0 || n > op.N {
			x.abort("Read returned impossible n")
		}
	}
	x.handed = append(x.handed, p[:n]...)
	return fmt.Sprintf("Read(%d)=%d", op.N, n)
}

// --- WriteTo / Flush ---------------------------------------------------------------

func (x *dexec) doFlush(op *Op) string {
	tries := 0
	var lastErr error
	for {
		var err error
		var n int64
		fb := x.wr.faults
		cs := x.wrCallsStart()
		sinkBefore := len(x.wr.sink)
		x.armWriterLimit(3)
		pn, hang := x.call(x.budget(0), func() {
			if x.buf != nil {
				n, err = x.buf.WriteTo(x.wr)
			} else {
				err = x.dec.Flush()
			}
		})
		if pn != "" {
			x.libPanic("Flush/WriteTo", pn, hang)
		}
		x.wrCallsCheck("Flush/WriteTo", cs, 3)
		lastErr = err
		if x.buf != nil && n != int64(len(x.wr.sink)-sinkBefore) {
			x.fail("C17", "writeto_n", "", "WriteTo returned n=%d, the writer accepted %d bytes", n, len(x.wr.sink)-sinkBefore)
		}
		x.invariantsLight()
		w := x.checkWriterErr("flush", fb, err)
		if err == nil {
			// everything written so far must have reached the sink
			if len(x.handed) != len(x.ref) {
				x.fail("C04", "flush_incomplete", "", "Flush/WriteTo returned nil but %d of %d bytes were handed out", len(x.handed), len(x.ref))
				x.fail("C18", "flush_incomplete", "", "Flush returned nil but the writer has received %d of %d bytes", len(x.handed), len(x.ref))
			}
			break
		}
		if !w {
			x.fail("C04", "flush_error", "", "Flush/WriteTo returned %s although the writer did not fail", errName(err))
			break
		}
		tries++
		if !op.Re || tries >= 100 {
			break
		}
		x.probe("retry_flush")
	}
	return fmt.Sprintf("%s err=%s", op.K, errName(lastErr))
}

// --- ByteAtEnd ---------------------------------------------------------------------

func (x *dexec) doByteAtEnd(op *Op) string {
	if x.buf == nil {
		return "skip"
	}
	lim := x.lim(len(x.ref))
	j := op.X
	if op.Sel > 0 {
		j = int(resolveOffset(op.Sel, lim))
	}
	var c byte
	pn, hang := x.call(x.budget(0), func() { c = x.buf.ByteAtEnd(j) })
	if pn != "" {
		x.libPanic(fmt.Sprintf("ByteAtEnd(%d)", j), pn, hang)
	}
	if j >= 1 && j <= lim {
		if c != x.ref[len(x.ref)-j] {
			x.fail("C04", "byte_at_end", "", "ByteAtEnd(%d)=%#x, reference has %#x (window limit %d)", j, c, x.ref[len(x.ref)-j], lim)
		}
		if j == lim {
			x.probe("byteatend_at_limit")
		}
	}
	return fmt.Sprintf("ByteAtEnd(%d)=%d", j, c)
}

// --- Reset --------------------------------------------------------------------------

func (x *dexec) doReset(op *Op) string {
	if op.X == 2 && x.spec.WindowSize > 0 {
		// re-Init with ANOTHER configuration: a window between one and two
		// times the old one, BufferSize left to its default (documented: twice
		// the window); from here on the model uses the new geometry
		ws2 := x.ws + int(op.Sel*float64(x.ws))
		x.spec.WindowSize, x.spec.BufferSize = ws2, 0
		x.ws, x.bs = ws2, 2*ws2
		op = &Op{K: "Reset", X: 1, WP: op.WP}
		x.probe("reinit_other_config")
	}
	pn, hang := x.call(x.budget(0), func() {
		cfg := lz.DecoderConfig{WindowSize: x.spec.WindowSize, BufferSize: x.spec.BufferSize}
		switch {
		case op.X == 1 && x.buf != nil:
			// re-Init of a used buffer (its Data slice is reused)
			if err := x.buf.Init(cfg); err != nil {
				panic("Init of an accepted configuration failed: " + err.Error())
			}
			x.probe("reinit")
		case op.X == 1:
			x.wr = NewSimWriter(op.WP, x.res.Fired)
			if err := x.dec.Init(x.wr, cfg); err != nil {
				panic("Init of an accepted configuration failed: " + err.Error())
			}
			x.probe("reinit")
		case x.buf != nil:
			x.buf.Reset()
		default:
			x.wr = NewSimWriter(op.WP, x.res.Fired)
			x.dec.Reset(x.wr)
		}
	})
	if pn != "" {
		x.libPanic("Reset", pn, hang)
	}
	if x.buf != nil {
		x.wr = NewSimWriter(op.WP, x.res.Fired)
	}
	x.sinkSeen = 0
	x.ref = nil
	x.handed = nil
	x.probe("reset")
	return "Reset"
}

// final drains the buffer: everything written must come out exactly once.
func (x *dexec) final() {
	if x.buf != nil {
		for i := 0; i < 4 && len(x.handed) < len(x.ref); i++ {
			p := make([]byte, len(x.ref)-len(x.handed)+8)
			var n int
			pn, hang := x.call(x.budget(len(p)), func() { n, _ = x.buf.Read(p) })
			if pn != "" {
				x.libPanic("Read(final drain)", pn, hang)
			}
			if n < 0 || n > len(p) {
				x.abort("Read returned impossible n")
			}
			x.handed = append(x.handed, p[:n]...)
			x.invariants()
			if n == 0 {
				break
			}
		}
	} else {
		nilSeen := -1
		for i := 0; i < 200; i++ {
			var err error
			fb := x.wr.faults
			x.armWriterLimit(3)
			pn, hang := x.call(x.budget(0), func() { err = x.dec.Flush() })
			if pn != "" {
				x.libPanic("Flush(final)", pn, hang)
			}
			x.invariantsLight()
			if err == nil {
				// (C06 only) a writer that took fewer bytes than offered without
				// an error leaves a Flush that returned nil with bytes pending:
				// the caller flushes again
				if x.wr.nilAns > nilSeen && len(x.handed) < len(x.ref) {
					nilSeen = x.wr.nilAns
					continue
				}
				break
			}
			if !x.checkWriterErr("flush", fb, err) {
				x.fail("C04", "flush_error", "", "final Flush returned %s although the writer did not fail", errName(err))
				break
			}
			if !x.wr.FaultsAhead() && i > 150 {
				break
			}
		}
		x.invariants()
	}
	if len(x.handed) != len(x.ref) {
		x.fail("C04", "final_drain", "", "after the final drain %d of %d written bytes were handed out", len(x.handed), len(x.ref))
		x.fail("C18", "final_sink", "", "after the final successful Flush the writer has %d of %d bytes", len(x.handed), len(x.ref))
		x.fail("C17", "final_drain", "", "reported counts imply %d bytes, %d came out", len(x.ref), len(x.handed))
		x.fail("C07", "sink_differs", "", "after the final Flush the writer has %d of the %d original bytes", len(x.handed), len(x.ref))
	}
}
