package main

// Generators for the decoder world.

type dgen struct {
	target     string // buffer | decoder | "" (either)
	nOps       int
	malformed  float64 // probability that a block / match carries a malformation
	wfaults    bool    // writer fault plan
	sizes      string  // "fit": every item <= min(WS, BS-WS); "any": stratified incl. oversize; "huge": also > BS and raw 32-bit lengths
	retry      float64 // probability that the client follows the retry protocol
	readBias   int     // weight of Read/WriteTo/Flush
	resetW     int
	firstFault int // stratified call index of the first writer fault (-1 random)
	geomClass  string
	nilWrites  bool // some writer faults are (0, nil) answers (C06 only)
	deadWriter bool // the writer fails for good from some call on (C06 only)
	bigLits    bool // plain writes and trailing literals are sized "any" (oversize allowed: Write chunks them) while sequences keep g.sizes
}

func genDecoderSpec(r *RNG, target, class string) DecoderSpec {
	d := DecoderSpec{Target: target}
	switch class {
	case "tiny":
		d.WindowSize = r.Range(1, 16)
	case "small":
		d.WindowSize = r.Range(17, 300)
	case "mega":
		// windows of 1 MiB and more, the first write hands over 1 MiB and more
		// in one slice (see genDecoderTrace)
		d.WindowSize = r.Pick(1<<20, 1<<20+1, 1500000)
		ws := d.WindowSize
		switch r.Intn(5) {
		case 0:
			d.BufferSize = 0
		case 1, 2:
			d.BufferSize = ws + 1 + r.Intn(ws) // < 2*WS
		case 3:
			d.BufferSize = 2 * ws
		default:
			d.BufferSize = ws + 1 + r.Intn(1<<14)
		}
		return d
	case "wide":
		// volume stratum: windows of 64 KiB to 1 MiB (matches longer than
		// 64 KiB, offsets beyond 64 KiB, MiBs through the buffer)
		d.WindowSize = r.Pick(1<<16, 1<<16+1, 100_000, 1<<17, 1<<18, 300_001, 1<<20)
		ws := d.WindowSize
		switch r.Intn(5) {
		case 0:
			d.BufferSize = 0
		case 1:
			d.BufferSize = ws + 1 + r.Intn(ws)
		case 2:
			d.BufferSize = 2 * ws
		case 3:
			d.BufferSize = ws + 1 + r.Intn(1<<14)
		default:
			d.BufferSize = 2*ws + r.Intn(ws)
		}
		return d
	default:
		d.WindowSize = r.Range(301, 4000)
	}
	if r.Chance(0.1) {
		d.WindowSize = r.Pick(1, 2, 3, 7, 8, 9, 16, 64)
	}
	if r.Chance(0.01) {
		// all-default configuration
		d.WindowSize, d.BufferSize = 0, 0
		return d
	}
	ws := d.WindowSize
	if r.Chance(0.02) {
		// boundary that Verify must reject (BufferSize <= WindowSize); if a
		// tree accepts it, the run exercises it
		d.BufferSize = ws - r.Intn(2)
		if d.BufferSize < 1 {
			d.BufferSize = 1
			d.WindowSize = 1
		}
		return d
	}
	switch r.Intn(7) {
	case 0:
		d.BufferSize = ws + 1
	case 1:
		d.BufferSize = ws + 1 + r.Intn(ws) // < 2*WS
	case 2:
		d.BufferSize = 2 * ws
	case 3:
		d.BufferSize = 0 // default 2*WS
	case 4:
		d.BufferSize = 2*ws + 1 + r.Intn(2*ws+8)
	case 5:
		d.BufferSize = ws + 2 + r.Intn(6)
	default:
		d.BufferSize = ws + 1 + r.Intn(3*ws+4)
	}
	return d
}

// sizes returns the geometry used to size generated items. For the
// all-default configuration (8 MiB window) items stay small: the buffer is
// never filled, but the default code paths are exercised.
func (d *DecoderSpec) sizes() (ws, bs int) {
	ws, bs = d.WindowSize, d.BufferSize
	if ws == 0 {
		return 2048, 4096
	}
	if bs == 0 {
		bs = 2 * ws
	}
	return
}

func genLits(r *RNG, n int) []byte {
	b := make([]byte, n)
	k := r.Pick(1, 2, 3, 16, 256)
	base := byte(r.Intn(256))
	for i := range b {
		b[i] = base + byte(r.Intn(k))
	}
	return b
}

// itemSize draws the size of one item relative to the room BS-WS.
func itemSize(r *RNG, g *dgen, ws, bs int) int {
	n := itemSize0(r, g, ws, bs)
	if n < 0 {
		n = 0
	}
	return n
}

func itemSize0(r *RNG, g *dgen, ws, bs int) int {
	room := bs - ws
	if room < 0 {
		room = 0
	}
	fit := room
	if ws < fit {
		fit = ws
	}
	if fit < 1 {
		fit = 1
	}
	switch g.sizes {
	case "fit":
		if r.Chance(0.15) {
			return fit
		}
		return r.Intn(fit + 1)
	case "any", "huge":
		switch r.Intn(9) {
		case 0:
			return room
		case 1:
			return room + 1 + r.Intn(4)
		case 2:
			return bs + r.Intn(8)
		case 3:
			return ws + 1 + r.Intn(ws+2)
		case 4:
			if g.sizes == "huge" {
				return 2*bs + r.Intn(4*bs+2)
			}
			return r.Intn(fit + 1)
		case 5:
			return ws
		default:
			return r.Intn(fit + 1)
		}
	}
	return r.Intn(fit + 1)
}

func genSeqSpecs(r *RNG, g *dgen, ws, bs int, malformedHere bool) (seqs []SeqSpec, nlits int) {
	k := r.Intn(5)
	if r.Chance(0.2) {
		k = r.Intn(12)
	}
	badAt := -1
	if malformedHere && k > 0 {
		badAt = r.Intn(k)
	}
	for i := 0; i < k; i++ {
		sz := itemSize(r, g, ws, bs)
		l := 0
		if sz > 0 {
			l = r.Intn(sz + 1)
			if r.Chance(0.3) {
				l = r.Intn(min(sz, 4) + 1)
			}
		}
		m := sz - l
		s := SeqSpec{L: l, M: m, Sel: r.Float()}
		switch r.Intn(6) {
		case 0:
			s.Sel = 1 // exactly the window limit
		case 1:
			s.Sel = 0 // offset 1: overlapping copy
		case 2:
			if m > 0 {
				s.Sel = r.Float() * 0.1 // small offsets => overlapping, doubling loop
			}
		}
		if i == badAt {
			switch r.Intn(6) {
			case 0:
				s.Bad = "off0"
			case 1:
				s.Bad = "offbig"
				s.D = int64(1 + r.Intn(3))
				if r.Chance(0.3) {
					s.D = int64(r.U64() % (1 << 32))
				}
			case 2:
				s.Bad = "litlen"
				s.D = int64(1 + r.Intn(3))
			case 3:
				s.Bad = "rawoff"
				s.D = int64(r.U64() % (1 << 32))
				if r.Chance(0.3) {
					s.D = int64(uint32(0xffffffff) - uint32(r.Intn(16)))
				}
			case 4:
				s.Bad = "rawlit"
				s.D = int64(r.U64() % (1 << 32))
				if r.Chance(0.3) {
					s.D = int64(uint32(0xffffffff) - uint32(r.Intn(16)))
				}
			default:
				s.Bad = "offbig"
				s.D = 1
			}
		}
		if g.sizes == "huge" && r.Chance(0.03) {
			s.M = int(uint32(0xffffffff) - uint32(r.Intn(1<<20)))
		}
		nlits += l
		seqs = append(seqs, s)
	}
	return seqs, nlits
}

func genWPlan(r *RNG, first int, n int) *WPlan {
	p := &WPlan{}
	k := 1 + r.Intn(3)
	if r.Chance(0.2) {
		k += r.Intn(6)
	}
	id := 1
	for i := 0; i < k; i++ {
		c := r.Intn(n + 1)
		if i == 0 && first >= 0 {
			c = first
		}
		burst := 1
		if r.Chance(0.3) {
			burst = 2 + r.Intn(3)
		}
		for j := 0; j < burst; j++ {
			e := WEvent{Call: c + j, ID: id}
			id++
			switch r.Intn(4) {
			case 0:
				e.Accept = 0
			case 1:
				e.Accept = 1 + r.Intn(4)
			default:
				e.Accept = r.Intn(1 << 12) // clamped to len-1 by the writer
			}
			e.Short = r.Chance(0.4)
			if !e.Short && r.Chance(0.25) {
				e.Err = r.pickStr("full", "full", "empty", "eof", "closed")
			}
			p.Events = append(p.Events, e)
		}
	}
	return p
}

func genDecoderTrace(r *RNG, g dgen) *Trace {
	target := g.target
	if target == "" {
		target = r.pickStr("buffer", "decoder")
	}
	class := g.geomClass
	if class == "" {
		class = []string{"tiny", "small", "medium"}[r.Weighted([]int{55, 38, 7})]
	}
	spec := genDecoderSpec(r, target, class)
	ws, bs := spec.sizes()
	if g.wfaults {
		spec.WPlan = genWPlan(r, g.firstFault, 12)
		if g.deadWriter {
			spec.WPlan.DeadFrom = 1 + r.Intn(10)
			spec.WPlan.DeadErr = r.pickStr("", "full", "full", "eof")
		}
		if g.nilWrites {
			for i := range spec.WPlan.Events {
				if r.Chance(0.3) {
					spec.WPlan.Events[i].Nil = true
				}
			}
		}
	}
	t := &Trace{World: "decoder", D: &spec}
	gl := g // sizing of plain writes and trailing literals
	if g.bigLits {
		gl.sizes = "any"
	}
	w := []int{6, 8, 5, 12, g.readBias, g.readBias, 2, g.resetW} // WByte Write WMatch WBlock Read Flush ByteAtEnd Reset
	if target == "decoder" {
		w[2], w[4], w[6] = 0, 0, 0
	}
	if class == "mega" {
		n := r.Pick(1<<20, 1<<20+1, 2<<20, bs-ws+1<<20, 1<<20-1)
		t.Ops = append(t.Ops, Op{K: "Write", Lits: genLits(r, n), Re: r.Chance(g.retry)})
		if target == "decoder" && r.Chance(0.7) {
			// a match at the window limit right behind it
			l := r.Intn(3)
			t.Ops = append(t.Ops, Op{K: "WBlock", Seqs: []SeqSpec{{L: l, M: 1 + r.Intn(1000), Sel: 1}}, Lits: genLits(r, l)})
		}
	}
	for len(t.Ops) < g.nOps {
		switch r.Weighted(w) {
		case 0:
			t.Ops = append(t.Ops, Op{K: "WByte", X: r.Pick(0, 0, 1, 97, 98, 255)})
		case 1:
			n := itemSize(r, &gl, ws, bs)
			t.Ops = append(t.Ops, Op{K: "Write", Lits: genLits(r, n), Re: r.Chance(g.retry)})
		case 2:
			op := Op{K: "WMatch", N: itemSize(r, &g, ws, bs), Sel: r.Float()}
			switch r.Intn(5) {
			case 0:
				op.Sel = 1
				if r.Chance(0.5) {
					op.N = 1
				}
			case 1:
				op.Sel = 0
			}
			if r.Chance(g.malformed) {
				op.Bad = r.pickStr("off0", "offbig", "rawoff")
				op.X = 1 + r.Intn(3)
				if op.Bad == "rawoff" || r.Chance(0.3) {
					op.X = int(r.U64() % (1 << 32))
				}
			}
			if g.sizes == "huge" && r.Chance(0.05) {
				op.N = int(uint32(0xffffffff) - uint32(r.Intn(1<<20)))
			}
			t.Ops = append(t.Ops, op)
		case 3:
			seqs, nl := genSeqSpecs(r, &g, ws, bs, r.Chance(g.malformed))
			trail := 0
			if r.Chance(0.6) {
				trail = itemSize(r, &gl, ws, bs)
				if r.Chance(0.5) {
					trail = r.Intn(min(trail, 6) + 1)
				}
			}
			t.Ops = append(t.Ops, Op{K: "WBlock", Seqs: seqs, Lits: genLits(r, nl+trail), Re: r.Chance(g.retry)})
		case 4:
			n := r.Intn(bs + 2)
			if r.Chance(0.5) {
				n = 1 + r.Intn(8)
			}
			t.Ops = append(t.Ops, Op{K: "Read", N: n})
		case 5:
			k := "Flush"
			if target == "buffer" {
				k = "WriteTo"
			}
			t.Ops = append(t.Ops, Op{K: k, Re: r.Chance(g.retry)})
		case 6:
			op := Op{K: "ByteAtEnd", Sel: r.Float()}
			if r.Chance(0.3) {
				op.Sel = 1
			}
			if r.Chance(0.2) {
				op.Sel = 0
				op.X = r.Intn(bs + 3)
			}
			t.Ops = append(t.Ops, op)
		case 7:
			op := Op{K: "Reset"}
			if r.Chance(0.3) {
				op.X = 1 // Init again instead of Reset
				if r.Chance(0.4) {
					op.X = 2 // Init again with a larger window and the default buffer
					op.Sel = r.Float()
				}
			}
			if g.wfaults && r.Chance(0.5) {
				op.WP = genWPlan(r, -1, 8)
			}
			t.Ops = append(t.Ops, op)
		}
	}
	return t
}
