package main

import (
	"fmt"
	"io"
	"sort"

	"github.com/ulikunitz/lz"
)

// ---------------------------------------------------------------------------
// Simulated errors: distinct identities so that "the reader's own error" can
// be checked by identity.

type SimErr struct {
	Who string
	ID  int
}

func (e *SimErr) Error() string { return fmt.Sprintf("sim-%s-error#%d", e.Who, e.ID) }

// ---------------------------------------------------------------------------
// SimReader: io.Reader driven by an explicit, position keyed fault plan.

type SimReader struct {
	data    []byte
	plan    RPlan
	pos     int
	calls   int
	fired   map[string]int // fault kind -> times actually reached
	ev      []rEvState
	errs    map[int]*SimErr
	last    error // last non-nil error returned
	lastRet error // error of the most recent Read call (may be nil)
	lastN   int
	eofHit  bool
	zeroRun int
}

type rEvState struct {
	REvent
	left int
	done bool
}

func NewSimReader(data []byte, plan *RPlan, fired map[string]int) *SimReader {
	r := &SimReader{data: data, fired: fired, errs: map[int]*SimErr{}}
	if plan != nil {
		r.plan = *plan
	}
	if r.plan.EOFEarly > 0 && r.plan.EOFEarly-1 < len(r.data) {
		r.data = r.data[:r.plan.EOFEarly-1]
		r.fire("eof_early_configured")
	}
	for _, e := range r.plan.Events {
		st := rEvState{REvent: e, left: e.Rep}
		if st.left == 0 {
			st.left = 1
		}
		r.ev = append(r.ev, st)
	}
	sort.SliceStable(r.ev, func(i, j int) bool { return r.ev[i].At < r.ev[j].At })
	return r
}

func (r *SimReader) fire(k string) {
	if r.fired != nil {
		r.fired[k]++
	}
}

// sentinelErrs are well-known error values a real reader can fail with (a
// decompressor on a truncated file, a closed pipe); every fifth and every
// seventh fault id uses one of them instead of a SimErr, so that special
// treatment of particular error values inside the library is exercised.
var sentinelErrs = []error{io.ErrUnexpectedEOF, io.ErrClosedPipe, io.ErrNoProgress}

func (r *SimReader) errFor(id int) error {
	switch {
	case id%5 == 3:
		return io.ErrUnexpectedEOF
	case id%7 == 5:
		return sentinelErrs[1+id%2]
	}
	e := r.errs[id]
	if e == nil {
		e = &SimErr{Who: "reader", ID: id}
		r.errs[id] = e
	}
	return e
}

// isReaderFault reports whether err is one of the errors a SimReader fails with.
func isReaderFault(err error) bool {
	if _, ok := err.(*SimErr); ok {
		return true
	}
	for _, e := range sentinelErrs {
		if err == e {
			return true
		}
	}
	return false
}

// HandedOut is the number of stream bytes the reader has delivered so far.
func (r *SimReader) HandedOut() int { return r.pos }

// Exhausted reports whether all data has been delivered.
func (r *SimReader) Exhausted() bool { return r.pos >= len(r.data) }

// PendingFaults reports whether a fault event is still ahead.
func (r *SimReader) PendingFaults() bool {
	for i := range r.ev {
		if !r.ev[i].done {
			return true
		}
	}
	return false
}

func (r *SimReader) Read(p []byte) (n int, err error) {
	r.calls++
	defer func() {
		r.lastN = n
		r.lastRet = err
		if err != nil {
			r.last = err
		}
	}()
	if len(p) == 0 {
		r.fire("empty_read_request")
		if r.pos >= len(r.data) {
			return 0, io.EOF
		}
		return 0, nil
	}
	// faults at the current position
	for i := range r.ev {
		e := &r.ev[i]
		if e.done || e.At > r.pos {
			continue
		}
		// events whose position was jumped over fire at the next call
		switch e.Kind {
		case "zero":
			if e.left != 0 {
				if e.left > 0 {
					e.left--
				}
				if e.left == 0 {
					e.done = true
				}
				r.fire("zero_read")
				return 0, nil
			}
			e.done = true
		case "sticky":
			if e.left != 0 {
				if e.left > 0 {
					e.left--
					if e.left == 0 {
						e.done = true
					}
					r.fire("err_no_data")
				} else {
					r.fire("err_dead_reader")
				}
				return 0, r.errFor(e.ID)
			}
			e.done = true
		case "err":
			k := e.Keep
			if k > len(r.data)-r.pos {
				k = len(r.data) - r.pos
			}
			if k > len(p) {
				// request too small for the bytes that accompany the
				// error: deliver what fits now, the error follows with
				// the rest (keeps the plan independent of request sizes)
				k = len(p)
				copy(p, r.data[r.pos:r.pos+k])
				r.pos += k
				e.At += k
				e.Keep -= k
				return k, nil
			}
			e.done = true
			copy(p, r.data[r.pos:r.pos+k])
			r.pos += k
			if k > 0 {
				r.fire("err_with_data")
			} else {
				r.fire("err_no_data")
			}
			return k, r.errFor(e.ID)
		default:
			e.done = true
		}
	}
	if r.pos >= len(r.data) {
		r.eofHit = true
		return 0, io.EOF
	}
	limit := len(r.data)
	for _, c := range r.plan.Cuts {
		if c > r.pos && c < limit {
			limit = c
		}
	}
	for i := range r.ev {
		if !r.ev[i].done && r.ev[i].At > r.pos && r.ev[i].At < limit {
			limit = r.ev[i].At
		}
	}
	if r.pos >= r.plan.ByteFrom && r.pos < r.plan.ByteTo {
		if r.pos+1 < limit {
			limit = r.pos + 1
		}
		r.fire("bytewise")
	}
	if r.plan.MaxChunk > 0 && r.pos+r.plan.MaxChunk < limit {
		limit = r.pos + r.plan.MaxChunk
	}
	n = limit - r.pos
	if n > len(p) {
		n = len(p)
	} else if limit < len(r.data) {
		r.fire("short_read")
	}
	copy(p, r.data[r.pos:r.pos+n])
	r.pos += n
	if r.pos >= len(r.data) && r.plan.EOFWithData {
		r.fire("eof_with_data")
		r.eofHit = true
		return n, io.EOF
	}
	return n, nil
}

// ---------------------------------------------------------------------------
// SimWriter: io.Writer driven by a call-index keyed fault plan. It always
// honours the io.Writer contract (n < len(p) => err != nil) and never retains p.

type SimWriter struct {
	sink    []byte
	plan    map[int]WEvent
	calls   int
	fired   map[string]int
	errs    map[int]*SimErr
	lastErr error
	faults  int // faults fired
	maxCall int
	raised  []error // error of each fired fault, in order
	limit   int     // >0: panic when calls exceeds it (unbounded-work guard)
	nilAns  int     // (0, nil) answers given so far (contract violating; C06 only)
	dead    int     // plan.DeadFrom
	deadErr string
}

// raisedDuring reports whether err is one of the errors raised since the
// fault counter had value fb.
func (w *SimWriter) raisedDuring(fb int, err error) bool {
	for _, e := range w.raised[fb:] {
		if e == err {
			return true
		}
	}
	return false
}

func NewSimWriter(plan *WPlan, fired map[string]int) *SimWriter {
	w := &SimWriter{plan: map[int]WEvent{}, fired: fired, errs: map[int]*SimErr{}, maxCall: -1}
	if plan != nil {
		for _, e := range plan.Events {
			w.plan[e.Call] = e
			if e.Call > w.maxCall {
				w.maxCall = e.Call
			}
		}
		w.dead, w.deadErr = plan.DeadFrom, plan.DeadErr
	}
	return w
}

func (w *SimWriter) fire(k string) {
	if w.fired != nil {
		w.fired[k]++
	}
}

// FaultsAhead reports whether a planned fault has not yet been reached.
func (w *SimWriter) FaultsAhead() bool { return w.calls <= w.maxCall }

func (w *SimWriter) Write(p []byte) (int, error) {
	idx := w.calls
	w.calls++
	w.lastErr = nil
	if w.limit > 0 && w.calls > w.limit {
		w.limit = 0
		panic(writerCallsExceeded{})
	}
	if e, ok := w.plan[idx]; ok && e.Nil && len(p) > 0 {
		// accepts fewer bytes than offered and returns a nil error
		n := e.Accept
		if n >= len(p) {
			n = len(p) - 1
		}
		if n < 0 {
			n = 0
		}
		w.sink = append(w.sink, p[:n]...)
		w.nilAns++
		if n == 0 {
			w.fire("writer_zero_nil")
		} else {
			w.fire("writer_short_nil")
		}
		return n, nil
	}
	if e, ok := w.plan[idx]; ok {
		n := e.Accept
		if n >= len(p) {
			n = len(p) - 1
		}
		if n < 0 {
			n = 0
		}
		w.sink = append(w.sink, p[:n]...)
		err := w.errFor(e.Short, e.Err, e.ID)
		w.faults++
		w.raised = append(w.raised, err)
		if n > 0 {
			w.fire("writer_short")
		} else {
			w.fire("writer_fail_zero")
		}
		if _, prev := w.plan[idx-1]; prev {
			w.fire("writer_burst")
		}
		if len(p) == 0 {
			w.fire("writer_fault_on_empty_write")
		}
		w.lastErr = err
		return n, err
	}
	if w.dead > 0 && idx >= w.dead-1 {
		err := w.errFor(false, w.deadErr, 1<<20)
		w.faults++
		w.raised = append(w.raised, err)
		w.fire("writer_dead")
		w.lastErr = err
		return 0, err
	}
	w.sink = append(w.sink, p...)
	return len(p), nil
}

// writerSentinels are well-known error values a destination can fail with: a
// destination that is itself a bounded buffer of this module answers
// lz.ErrFullBuffer, a closed pipe io.ErrClosedPipe. The library must hand them
// back like any other writer error and not mistake them for its own.
var writerSentinels = map[string]error{
	"full":   lz.ErrFullBuffer,
	"empty":  lz.ErrEmptyBuffer,
	"eof":    io.EOF,
	"closed": io.ErrClosedPipe,
}

func (w *SimWriter) errFor(short bool, name string, id int) error {
	if short {
		return io.ErrShortWrite
	}
	if e := writerSentinels[name]; e != nil {
		return e
	}
	se := w.errs[id]
	if se == nil {
		se = &SimErr{Who: "writer", ID: id}
		w.errs[id] = se
	}
	return se
}

// ---------------------------------------------------------------------------
// Tick clock. The instrumented library calls simyield.Hook at every generated
// yield point; the hook advances the only clock of the simulation. Exactly one
// task runs at any time (multi world: baton passing), so curClock is never
// accessed concurrently.

type tickBudgetExceeded struct{ ticks, budget int64 }

type taskClock struct {
	ticks     int64 // simulated time of this task
	callStart int64
	budget    int64 // 0 = unlimited
	hits      []int64
	sched     *scheduler
	task      int
}

var curClock *taskClock

func soloClock() *taskClock {
	c := &taskClock{}
	curClock = c
	return c
}

func (c *taskClock) begin(budget int64) {
	c.callStart = c.ticks
	c.budget = budget
}

func (c *taskClock) end() int64 {
	c.budget = 0
	return c.ticks - c.callStart
}

func tickHook(site int) {
	c := curClock
	if c == nil {
		return
	}
	c.ticks++
	if c.hits != nil {
		c.hits[site]++
	}
	if c.sched != nil {
		c.sched.point(c, site)
	}
	if c.budget > 0 && c.ticks-c.callStart > c.budget {
		b := c.budget
		c.budget = 0
		panic(tickBudgetExceeded{c.ticks - c.callStart, b})
	}
}
