package main

import (
	"bytes"
	"fmt"
	"io"
	"strings"

	"github.com/ulikunitz/lz"
)

// ---------------------------------------------------------------------------
// Building real parsers from a ParserSpec.

func (p *ParserSpec) Config() (lz.ParserConfig, error) {
	switch p.Type {
	case "HP":
		return &lz.HPConfig{ShrinkSize: p.ShrinkSize, BufferSize: p.BufferSize, WindowSize: p.WindowSize, BlockSize: p.BlockSize,
			InputLen: p.InputLen, HashBits: p.HashBits}, nil
	case "BHP":
		return &lz.BHPConfig{ShrinkSize: p.ShrinkSize, BufferSize: p.BufferSize, WindowSize: p.WindowSize, BlockSize: p.BlockSize,
			InputLen: p.InputLen, HashBits: p.HashBits}, nil
	case "DHP":
		return &lz.DHPConfig{ShrinkSize: p.ShrinkSize, BufferSize: p.BufferSize, WindowSize: p.WindowSize, BlockSize: p.BlockSize,
			InputLen1: p.InputLen1, HashBits1: p.HashBits1, InputLen2: p.InputLen2, HashBits2: p.HashBits2}, nil
	case "BDHP":
		return &lz.BDHPConfig{ShrinkSize: p.ShrinkSize, BufferSize: p.BufferSize, WindowSize: p.WindowSize, BlockSize: p.BlockSize,
			InputLen1: p.InputLen1, HashBits1: p.HashBits1, InputLen2: p.InputLen2, HashBits2: p.HashBits2}, nil
	case "BUP":
		return &lz.BUPConfig{ShrinkSize: p.ShrinkSize, BufferSize: p.BufferSize, WindowSize: p.WindowSize, BlockSize: p.BlockSize,
			InputLen: p.InputLen, HashBits: p.HashBits, BucketSize: p.BucketSize}, nil
	case "GSAP":
		return &lz.GSAPConfig{ShrinkSize: p.ShrinkSize, BufferSize: p.BufferSize, WindowSize: p.WindowSize, BlockSize: p.BlockSize,
			MinMatchLen: p.MinMatchLen}, nil
	case "OSAP":
		return &lz.OSAPConfig{ShrinkSize: p.ShrinkSize, BufferSize: p.BufferSize, WindowSize: p.WindowSize, BlockSize: p.BlockSize,
			MinMatchLen: p.MinMatchLen, MaxMatchLen: p.MaxMatchLen, Cost: p.Cost}, nil
	}
	return nil, fmt.Errorf("unknown parser type %q", p.Type)
}

// minMatch is the minimum match length C02 allows for a parser (after
// defaults): min(3, InputLen) for the hash parsers (InputLen1 for the double
// hash parsers, the weaker reading), MinMatchLen for GSAP/OSAP.
func (p *ParserSpec) minMatch() int {
	d := func(v, def int) int {
		if v == 0 {
			return def
		}
		return v
	}
	switch p.Type {
	case "HP", "BHP", "BUP":
		il := d(p.InputLen, 3)
		if il < 3 {
			return il
		}
		return 3
	case "DHP", "BDHP":
		il := d(p.InputLen1, 3)
		if il < 3 {
			return il
		}
		return 3
	default:
		return d(p.MinMatchLen, 3)
	}
}

func (p *ParserSpec) maxMatch() int {
	if p.Type != "OSAP" {
		return 0
	}
	if p.MaxMatchLen == 0 {
		return 273
	}
	return p.MaxMatchLen
}

// ---------------------------------------------------------------------------
// Result of executing one trace.

type Result struct {
	Viol        *Violation     // first violation of the wanted property
	Others      map[string]int // violations seen for other properties (not reported by this check)
	Aborted     string         // non-empty: run could not be evaluated further (reason)
	Obs         []string       // observation per operation
	ObsTicks    []int64        // tick value after each operation
	Probes      map[string]int
	Fired       map[string]int // fault kinds that actually fired
	Ticks       int64
	MaxCall     int64 // largest tick count of a single library call
	MaxCallBud  int64 // its budget
	OpsDone     int
	States      map[string]bool // abstract states visited
	Cursors     []int           // input cursor before each op (parser world)
	SchedHash   uint64          // multi world: hash of the executed schedule (task, site, ticks)
	EndRetained []byte          // parser world: bytes the model says are retained after the last executed op
	EndCursor   int             // parser world: input cursor after the last executed op
	EndUnparsed int             // parser world: unparsed bytes after the last executed op (model)
	NonTrivial  bool
}

func newResult() *Result {
	return &Result{Others: map[string]int{}, Probes: map[string]int{}, Fired: map[string]int{}, States: map[string]bool{}}
}

// ObsDigest is the digest of the observations only (no tick counts).
func (r *Result) ObsDigest() uint64 {
	c := *r
	c.ObsTicks = nil
	return c.Digest()
}

func (r *Result) Digest() uint64 {
	h := uint64(14695981039346656037)
	mix := func(s string) {
		for i := 0; i < len(s); i++ {
			h ^= uint64(s[i])
			h *= 1099511628211
		}
		h ^= 0xff
		h *= 1099511628211
	}
	for i, o := range r.Obs {
		mix(o)
		if i < len(r.ObsTicks) {
			mix(fmt.Sprint(r.ObsTicks[i]))
		}
	}
	if r.Viol != nil {
		mix(r.Viol.Clause)
	}
	mix(r.Aborted)
	return h
}

// ---------------------------------------------------------------------------

type stopRun struct{}

type pexec struct {
	t    *Trace
	want string
	res  *Result
	spec ParserSpec
	bc   lz.BufConfig
	step int

	parser lz.Parser
	pb     *lz.ParserBuffer
	wp     *lz.WrappedParser
	rd     *SimReader
	rdBase int // len(S) when the current wrap reader was installed... (S restarts at WReset, so always 0)

	// model
	S       []byte // bytes accepted since last Reset
	off, w  int    // absolute offsets of buffer start and parse position
	out     []byte // reference expansion so far
	cursor  int    // position in t.Input
	nilSeen bool   // a Parse(nil)/AdvanceW happened since last Reset
	blk     lz.Block
	gram    [][]int32 // longestPrevAt: positions by their first two bytes
	gramN   int
	eofSeen bool // wrap: io.EOF was returned

	fills, shrinks int
	tableEntries   int64  // entries of the parser's hash / bucket tables (for the tick budget)
	callerBuf      []byte // the last slice with spare capacity handed to Reset (a caller may refill and reuse it)
	clk            *taskClock
	noBudget       bool
}

func (x *pexec) fail(prop, clause, sig, format string, a ...interface{}) {
	msg := fmt.Sprintf(format, a...)
	if prop == x.want {
		if x.res.Viol == nil {
			x.res.Viol = &Violation{Prop: prop, Clause: clause, Msg: msg, Step: x.step, Sig: sig}
		}
		panic(stopRun{})
	}
	x.res.Others[prop+"/"+clause]++
}

func (x *pexec) abort(reason string) {
	if x.res.Aborted == "" {
		x.res.Aborted = reason
	}
	panic(stopRun{})
}

func (x *pexec) probe(name string) { x.res.Probes[name]++ }

func errName(err error) string {
	switch {
	case err == nil:
		return "nil"
	case err == lz.ErrEmptyBuffer:
		return "ErrEmptyBuffer"
	case err == lz.ErrFullBuffer:
		return "ErrFullBuffer"
	case err == lz.ErrOutOfBuffer:
		return "ErrOutOfBuffer"
	case err == lz.ErrEndOfBuffer:
		return "ErrEndOfBuffer"
	case err == io.EOF:
		return "EOF"
	case err == io.ErrShortWrite:
		return "ErrShortWrite"
	}
	if se, ok := err.(*SimErr); ok {
		return se.Error()
	}
	switch err {
	case io.ErrUnexpectedEOF:
		return "io.ErrUnexpectedEOF"
	case io.ErrClosedPipe:
		return "io.ErrClosedPipe"
	case io.ErrNoProgress:
		return "io.ErrNoProgress"
	}
	return "other(" + err.Error() + ")"
}

// call runs f as one library call under the tick budget. It returns a
// description of a panic ("" if none) and whether the panic was the budget
// sentinel.
func (x *pexec) call(budget int64, f func()) (panicked string, hang bool) {
	clk := x.clk
	if x.noBudget {
		budget = 0
	}
	clk.begin(budget)
	defer func() {
		used := clk.end()
		if used > x.res.MaxCall {
			x.res.MaxCall = used
			x.res.MaxCallBud = budget
		}
		if r := recover(); r != nil {
			if _, ok := r.(stopRun); ok {
				panic(r)
			}
			if tb, ok := r.(tickBudgetExceeded); ok {
				panicked = fmt.Sprintf("no return within %d ticks", tb.budget)
				hang = true
				return
			}
			panicked = fmt.Sprint(r)
			if len(panicked) > 200 {
				panicked = panicked[:200]
			}
		}
	}()
	f()
	return "", false
}

func (x *pexec) budget(arg int) int64 {
	b := 50_000_000 + 4000*int64(x.bc.BufferSize+arg)
	// Shrink and Reset walk the whole match-finder table (BUP: 2^HashBits
	// buckets of BucketSize entries, each touched a few times)
	b += 16 * x.tableEntries
	if x.spec.Type == "GSAP" || x.spec.Type == "OSAP" {
		// the suffix-array parsers are superlinear in the data they hold
		// (measured: up to 2400 ticks per buffered byte for OSAP at 72 KiB);
		// the budget keeps a factor of about 40 above that
		held := len(x.S) - x.off + arg
		if x.wp != nil {
			held = len(x.t.Input) // a wrapped Parse refills the buffer itself
		}
		if held > x.bc.BufferSize {
			held = x.bc.BufferSize
		}
		b += 100_000 * int64(held)
	}
	return b
}

// libPanic reports a panic/hang of a parser call.
func (x *pexec) libPanic(op string, p string, hang bool, props ...string) {
	clause := "panic"
	if hang {
		clause = "hang"
	}
	for _, pr := range props {
		if pr == x.want {
			x.fail(pr, clause, "", "%s: %s", op, p)
		}
	}
	for _, pr := range props {
		x.res.Others[pr+"/"+clause]++
	}
	x.abort(clause + " in " + op + ": " + p)
}

func runParserTrace(t *Trace, want string, clk *taskClock, startOp, startCursor int) (res *Result) {
	res = newResult()
	x := &pexec{t: t, want: want, res: res, spec: *t.P, clk: clk, cursor: startCursor}
	if clk == nil {
		x.clk = soloClock()
	}
	defer func() {
		res.Ticks = x.clk.ticks
		res.OpsDone = x.step
		if x.off >= 0 && x.off <= len(x.S) {
			res.EndRetained = append([]byte(nil), x.S[x.off:]...)
		}
		res.EndCursor = x.cursor
		res.EndUnparsed = len(x.S) - x.w
		if r := recover(); r != nil {
			if _, ok := r.(stopRun); ok {
				return
			}
			panic(r)
		}
	}()
	x.setup()
	for i := startOp; i < len(t.Ops); i++ {
		x.step = i
		res.Cursors = append(res.Cursors, x.cursor)
		ob := x.do(&t.Ops[i])
		res.Obs = append(res.Obs, ob)
		res.ObsTicks = append(res.ObsTicks, x.clk.ticks)
		res.States[x.abstractState(&t.Ops[i])] = true
	}
	x.step = len(t.Ops)
	return res
}

func (x *pexec) abstractState(op *Op) string {
	cls := func(v, max int) string {
		switch {
		case v <= 0:
			return "0"
		case v >= max:
			return "full"
		case 2*v < max:
			return "lo"
		}
		return "hi"
	}
	held := len(x.S) - x.off
	return fmt.Sprintf("%s|%s|held=%s|unparsed=%s|off>0=%v|%s", x.spec.Type, x.spec.Target, cls(held, x.bc.BufferSize),
		cls(len(x.S)-x.w, x.bc.BlockSize), x.off > 0, op.K)
}

func (x *pexec) setup() {
	cfg, err := x.spec.Config()
	if err != nil {
		x.abort(err.Error())
	}
	if x.spec.Target == "buffer" {
		x.pb = new(lz.ParserBuffer)
		bc := cfg.BufConfig()
		var ierr error
		if p, hang := x.call(x.budget(0), func() { ierr = x.pb.Init(bc) }); p != "" {
			x.libPanic("ParserBuffer.Init", p, hang, "C16")
		}
		if ierr != nil {
			x.abort("config rejected: " + ierr.Error())
		}
		x.bc = x.pb.BufConfig
		return
	}
	var perr error
	if p, hang := x.call(50_000_000, func() { x.parser, perr = cfg.NewParser() }); p != "" {
		x.libPanic("NewParser", p, hang, "C16")
	}
	if perr != nil {
		x.abort("config rejected: " + perr.Error())
	}
	x.bc = x.parser.BufferConfig()
	if c := x.parser.ParserConfig(); c != nil {
		x.tableEntries = tableBytes(c) / 8
	}
	if x.spec.Target == "wrap" {
		x.rd = NewSimReader(x.t.Input[x.cursor:], x.spec.Plan, x.res.Fired)
		if k := x.spec.PreUse; k > 0 {
			// a parser that was used before: Reset of the wrapper has to put it
			// into its initial state
			junk := make([]byte, k)
			for i := range junk {
				junk[i] = byte(i*37+11) % 5
			}
			pn, hang := x.call(x.budget(k), func() {
				x.parser.Write(junk)
				if k%2 == 0 {
					var b lz.Block
					x.parser.Parse(&b, 0)
				}
				x.wp = lz.Wrap(nil, x.parser)
				x.wp.Reset(x.rd)
			})
			if pn != "" {
				x.libPanic("Wrap/Reset of a used parser", pn, hang, "C16", "C08")
			}
			x.probe("wrap_of_used_parser")
		} else {
			x.wp = lz.Wrap(x.rd, x.parser)
		}
	}
}

func (x *pexec) take(n int) []byte {
	if n < 0 {
		n = 0
	}
	if n > len(x.t.Input)-x.cursor {
		n = len(x.t.Input) - x.cursor
	}
	return x.t.Input[x.cursor : x.cursor+n]
}

func (x *pexec) held() int { return len(x.S) - x.off }

func (x *pexec) do(op *Op) string {
	switch op.K {
	case "Write":
		return x.doWrite(op)
	case "ReadFrom":
		return x.doReadFrom(op)
	case "Parse":
		return x.doParse(op, false)
	case "WParse", "WParseNil":
		return x.doParse(op, true)
	case "ParseNil":
		return x.doParseNil(op)
	case "Shrink":
		return x.doShrink(op)
	case "Reset":
		return x.doReset(op)
	case "WReset":
		return x.doWReset(op)
	case "ReadAt", "PeekAt", "ByteAt":
		return x.doReadAt(op)
	case "AdvanceW":
		return x.doAdvanceW(op)
	}
	x.abort("unknown op " + op.K)
	return ""
}

// --- Write -----------------------------------------------------------------

func (x *pexec) doWrite(op *Op) string {
	if x.wp != nil {
		return "skip"
	}
	src := x.take(op.N)
	// the caller's chunk buffer: an own copy (with spare capacity for every
	// second length) that is overwritten after the call, as a caller that
	// reuses its buffer does; io.Writer forbids Write to retain it
	spare := 8 * (1 - len(src)%2)
	if len(src) >= 1<<16 {
		spare = 8 + len(src)%3 // large chunk buffers: always with room behind the data
	}
	p := make([]byte, len(src), len(src)+spare)
	copy(p, src)
	exp := x.bc.BufferSize - x.held()
	if exp < 0 {
		exp = 0
	}
	if exp > len(p) {
		exp = len(p)
	}
	var n int
	var err error
	pn, hang := x.call(x.budget(len(p)), func() {
		if x.pb != nil {
			n, err = x.pb.Write(p)
		} else {
			n, err = x.parser.Write(p)
		}
	})
	if pn != "" {
		x.libPanic("Write", pn, hang, "C16", "C15")
	}
	if !bytes.Equal(p, src) {
		x.fail("C15", "write_modifies_argument", "", "Write modified the caller's slice")
	}
	for i := range p {
		p[i] ^= 0x5a
	}
	if n != exp {
		x.fail("C15", "write_count", "", "Write(len %d) with %d of %d bytes held returned n=%d, want %d", len(p), x.held(), x.bc.BufferSize, n, exp)
	}
	wantFull := exp < len(p)
	if wantFull && err != lz.ErrFullBuffer {
		x.fail("C15", "write_err", "", "Write could not take everything (n=%d of %d) but returned err=%s", n, len(p), errName(err))
	}
	if !wantFull && err != nil {
		x.fail("C15", "write_err", "", "Write took everything (n=%d) but returned err=%s", n, errName(err))
		if err != lz.ErrFullBuffer {
			x.fail("C16", "undocumented_error", "", "Write returned %s", errName(err))
		}
	}
	if n < 0 || n > len(p) {
		x.abort("Write returned impossible n")
	}
	if wantFull {
		x.probe("buffer_full")
	}
	if n > 0 && x.off > 0 {
		x.probe("refill_after_shrink")
	}
	if n > 0 {
		x.fills++
	}
	x.S = append(x.S, src[:n]...)
	x.cursor += n
	return fmt.Sprintf("Write(%d) n=%d err=%s", len(p), n, errName(err))
}

// --- ReadFrom --------------------------------------------------------------

func (x *pexec) doReadFrom(op *Op) string {
	if x.wp != nil {
		return "skip"
	}
	src := x.take(op.N)
	rd := NewSimReader(src, op.Plan, x.res.Fired)
	var n int64
	var err error
	heldBefore := x.held()
	pn, hang := x.call(x.budget(len(src)), func() {
		if x.pb != nil {
			n, err = x.pb.ReadFrom(rd)
		} else {
			n, err = x.parser.ReadFrom(rd)
		}
	})
	h := rd.HandedOut()
	if pn != "" {
		if hang && rd.calls > 1000 {
			x.probe("reader_spin")
		}
		x.libPanic("ReadFrom", pn, hang, "C16", "C15")
	}
	if n != int64(h) {
		x.fail("C15", "readfrom_count", "", "ReadFrom returned n=%d but the reader handed out %d bytes", n, h)
	}
	if heldBefore+h > x.bc.BufferSize {
		x.fail("C15", "holds_more_than_buffersize", "", "after ReadFrom the buffer holds %d bytes, BufferSize is %d", heldBefore+h, x.bc.BufferSize)
	}
	full := heldBefore+h >= x.bc.BufferSize
	readerFailed := lastCallFailed(rd)
	switch {
	case err == lz.ErrFullBuffer:
		if !full {
			x.fail("C15", "readfrom_err", "", "ReadFrom returned ErrFullBuffer with %d of %d bytes held", heldBefore+h, x.bc.BufferSize)
		}
		if rd.lastRet != nil && rd.lastN > 0 {
			// the reader ended (EOF) or failed in the very Read that delivered
			// the last bytes: everything it gave was taken, and its own error
			// must not be replaced (a nil-returning last Read leaves ReadFrom no
			// way to know, there either answer is accepted)
			x.fail("C15", "readfrom_err", "", "ReadFrom returned ErrFullBuffer although the reader's last Read delivered its %d bytes together with %s and all of them were stored", rd.lastN, errName(rd.lastRet))
		}
	case err == nil:
		// nil is tolerated only if everything was taken
		if !rd.Exhausted() {
			x.fail("C15", "readfrom_err", "", "ReadFrom returned nil although the reader has %d more bytes", len(src)-h)
		}
	default:
		if err != rd.last {
			x.fail("C15", "readfrom_err", "", "ReadFrom returned %s, the reader's last error was %s", errName(err), errName(rd.last))
			x.fail("C16", "undocumented_error", "", "ReadFrom returned %s", errName(err))
		}
		if full && !rd.Exhausted() && !readerFailed && err == io.EOF {
			x.fail("C15", "readfrom_err", "", "ReadFrom returned EOF although data is left")
		}
	}
	if !full && !rd.Exhausted() && !readerFailed {
		// stopped early without reason: err must have been ErrFullBuffer, which is wrong here, or an invented error
		x.fail("C15", "readfrom_stopped_early", "", "ReadFrom stopped (err=%s) with %d of %d bytes held and a healthy reader with data left",
			errName(err), heldBefore+h, x.bc.BufferSize)
	}
	if full && !rd.Exhausted() && !readerFailed && err != lz.ErrFullBuffer {
		x.fail("C15", "readfrom_err", "", "ReadFrom could not take everything but returned %s", errName(err))
	}
	if full && rd.Exhausted() && !readerFailed {
		x.probe("readfrom_exact_fit")
	}
	if full {
		x.probe("buffer_full")
	}
	if h > 0 && x.off > 0 {
		x.probe("refill_after_shrink")
	}
	if h > 0 {
		x.fills++
	}
	if readerFailed {
		x.probe("readfrom_reader_error")
	}
	x.S = append(x.S, src[:h]...)
	x.cursor += h
	return fmt.Sprintf("ReadFrom(%d) n=%d err=%s", len(src), n, errName(err))
}

func lastCallFailed(rd *SimReader) bool {
	// the last Read call returned a non-nil, non-EOF error
	return isReaderFault(rd.lastRet)
}

// --- Parse -----------------------------------------------------------------

func seqString(b *lz.Block) string {
	var sb strings.Builder
	for _, s := range b.Sequences {
		fmt.Fprintf(&sb, "(%d,%d,%d,%d)", s.LitLen, s.MatchLen, s.Offset, s.Aux)
	}
	fmt.Fprintf(&sb, " lits=%x", b.Literals)
	return sb.String()
}

func (x *pexec) doParse(op *Op, wrapped bool) string {
	if wrapped != (x.wp != nil) || x.pb != nil {
		return "skip"
	}
	var blk *lz.Block
	// WParseNil: a skip through the wrapper (C14: it consumes input like a
	// normal Parse; the reader's bytes still pass through the parser)
	skip := op.K == "WParseNil"
	if skip {
		blk = nil
	} else if op.Re {
		blk = &x.blk
	} else {
		blk = &lz.Block{}
		// garbage that must be overwritten
		blk.Sequences = append(blk.Sequences, lz.Seq{LitLen: 7, MatchLen: 7, Offset: 7, Aux: 7})
		blk.Literals = append(blk.Literals, 0xAA, 0xBB)
	}
	var n int
	var err error
	wBefore := x.w
	handedBefore := 0
	if wrapped {
		handedBefore = x.rd.HandedOut()
	}
	name := "Parse"
	if wrapped {
		name = "WParse"
	}
	pn, hang := x.call(x.budget(0), func() {
		if wrapped {
			n, err = x.wp.Parse(blk, op.F)
		} else {
			n, err = x.parser.Parse(blk, op.F)
		}
	})
	if skip {
		name = "WParse(nil)"
		blk = &lz.Block{}
	}
	if wrapped {
		h := x.rd.HandedOut()
		if h > handedBefore {
			x.S = append(x.S, x.rd.data[handedBefore:h]...)
			x.fills++
			if len(x.S) > x.bc.BufferSize {
				x.probe("wrap_multiple_fills")
			}
		}
	}
	if pn != "" {
		if wrapped {
			// a wrapped parser that panics or spins has not streamed the reader
			x.libPanic(name, pn, hang, "C16", "C08")
		}
		if x.nilSeen {
			// blocks parsed after a skip must remain correct: no block at all is not
			x.libPanic(name+" after Parse(nil)", pn, hang, "C16", "C14")
		}
		x.libPanic(name, pn, hang, "C16")
	}
	ob := fmt.Sprintf("%s f=%d n=%d err=%s %s", name, op.F, n, errName(err), seqString(blk))
	unparsed := len(x.S) - wBefore

	if err != nil {
		if len(blk.Sequences) != 0 || len(blk.Literals) != 0 {
			if err == lz.ErrEmptyBuffer || err == io.EOF {
				x.fail("C03", "block_not_emptied", "", "%s returned %s with a non-empty block (%d sequences, %d literals)", name, errName(err), len(blk.Sequences), len(blk.Literals))
				if wrapped {
					x.fail("C08", "block_not_emptied", "", "%s returned %s with a non-empty block", name, errName(err))
				}
			}
		}
		if n != 0 {
			x.fail("C03", "n_nonzero_with_error", "", "%s returned n=%d together with %s", name, n, errName(err))
			if wrapped {
				x.fail("C08", "n_nonzero_with_error", "", "%s returned n=%d together with %s", name, n, errName(err))
			}
			x.abort("n != 0 with error")
		}
		switch {
		case err == lz.ErrEmptyBuffer && !wrapped:
			x.probe("empty_buffer_parse")
			if unparsed != 0 {
				x.fail("C03", "empty_buffer_with_data", "", "Parse returned ErrEmptyBuffer although %d unparsed bytes are buffered (gap: parser advanced further than it reported)", unparsed)
				x.fail("C16", "no_progress", "", "Parse returned ErrEmptyBuffer with %d unparsed bytes buffered", unparsed)
				x.abort("model and parser disagree about the parse position")
			}
		case err == io.EOF && wrapped:
			x.probe("wrap_eof")
			if unparsed != 0 {
				x.fail("C08", "eof_before_all_delivered", "", "EOF returned while %d bytes read from the reader were not delivered", unparsed)
				x.abort("EOF with undelivered bytes")
			}
			if !x.rd.eofHit {
				x.fail("C08", "eof_invented", "", "EOF returned although the reader never reported EOF (%d/%d bytes handed out)", x.rd.HandedOut(), len(x.rd.data))
			}
			if x.eofSeen {
				x.probe("wrap_eof_again")
			}
			x.eofSeen = true
		case wrapped && isSimErr(err):
			x.probe("wrap_reader_error_surfaced")
			if err != x.rd.last {
				x.fail("C08", "wrong_error", "", "WParse returned %s, the reader's last error was %s", errName(err), errName(x.rd.last))
			}
			if unparsed != 0 {
				x.fail("C08", "error_before_all_delivered", "", "reader error %s returned while %d bytes read before the failure were not delivered", errName(err), unparsed)
			}
		default:
			x.fail("C16", "undocumented_error", "", "%s returned %s", name, errName(err))
			if wrapped {
				x.fail("C08", "undocumented_error", "", "%s returned %s", name, errName(err))
			} else {
				x.fail("C03", "undocumented_error", "", "%s returned %s with %d unparsed bytes", name, errName(err), unparsed)
			}
			x.abort("undocumented error from " + name)
		}
		return ob
	}
	// err == nil
	if wrapped && x.eofSeen {
		x.fail("C08", "eof_not_sticky", "", "WParse returned n=%d after it had returned EOF", n)
	}
	if unparsed == 0 {
		x.fail("C03", "block_from_nothing", "", "%s returned n=%d, nil although no unparsed data is buffered (overlap: parser advanced less than it reported)", name, n)
		if wrapped {
			x.fail("C08", "bytes_not_from_reader", "", "WParse returned a block of %d bytes although every byte the reader has handed out (%d) was already delivered", n, x.rd.HandedOut())
		}
		x.abort("model and parser disagree about the parse position")
	}
	limit := unparsed
	if x.bc.BlockSize < limit {
		limit = x.bc.BlockSize
	}
	if n == 0 {
		x.fail("C03", "no_progress", "", "%s returned n=0, nil with %d unparsed bytes", name, unparsed)
		x.fail("C16", "no_progress", "", "%s returned n=0, nil with %d unparsed bytes", name, unparsed)
		x.abort("no progress")
	}
	if n < 0 || n > limit {
		x.fail("C03", "n_out_of_range", "", "%s returned n=%d, allowed 1..min(BlockSize=%d, unparsed=%d)", name, n, x.bc.BlockSize, unparsed)
		// a block that represents more bytes than are left of the input
		// cannot expand to "exactly the bytes consumed": C01's clause as well
		bl := int64(len(blk.Literals))
		for _, s := range blk.Sequences {
			bl += int64(s.MatchLen)
		}
		if bl > int64(unparsed) {
			x.fail("C01", "expansion_exceeds_input", "", "%s returned a block that expands to %d bytes although only %d bytes fed are not yet covered by blocks", name, bl, unparsed)
		}
		x.abort("n out of range")
	}
	if skip {
		if n != limit {
			x.fail("C14", "nil_count", "", "wrapped Parse(nil) with %d undelivered bytes read and BlockSize %d returned (%d, nil), want (%d, nil)", unparsed, x.bc.BlockSize, n, limit)
			x.abort("Parse(nil) mismatch")
		}
		x.out = append(x.out, x.S[wBefore:wBefore+n]...)
		x.w = wBefore + n
		x.nilSeen = true
		x.probe("parse_nil")
		x.probe("parse_nil_wrapped")
		return ob
	}
	// --- accounting (C03)
	sumL, sumM := int64(0), int64(0)
	for _, s := range blk.Sequences {
		sumL += int64(s.LitLen)
		sumM += int64(s.MatchLen)
	}
	if sumL > int64(len(blk.Literals)) {
		x.fail("C02", "litlen_exceeds_literals", "", "sum of LitLen %d exceeds len(Literals) %d", sumL, len(blk.Literals))
		x.fail("C01", "unexpandable", "", "sum of LitLen %d exceeds len(Literals) %d", sumL, len(blk.Literals))
		x.abort("LitLen exceeds literals")
	}
	covered := sumM + int64(len(blk.Literals))
	if int64(n) != covered {
		x.fail("C03", "n_vs_block", "", "%s returned n=%d but the block represents %d bytes (matches %d + literals %d)", name, n, covered, sumM, len(blk.Literals))
	}
	if op.F&lz.NoTrailingLiterals == 0 {
		if int64(n) != blk.Len() {
			x.fail("C03", "n_vs_len", "", "n=%d but Block.Len()=%d", n, blk.Len())
		}
	} else if len(blk.Sequences) > 0 {
		x.probe("ntl_with_seq")
		if int64(len(blk.Literals)) != sumL {
			x.fail("C03", "ntl_trailing_literals", "", "NoTrailingLiterals block carries %d literals, its sequences claim %d", len(blk.Literals), sumL)
		}
		if n < limit {
			x.probe("no_trailing_literals_cut")
		}
	} else {
		x.probe("ntl_without_seq")
	}
	if x.bc.BlockSize == 1 {
		x.probe("block_size_1")
	}
	if len(blk.Sequences) > 0 {
		x.probe("block_with_seq")
	} else {
		x.probe("block_without_seq")
	}
	// --- content (C01, C14) and per-sequence rules (C02, C19, C12)
	x.checkBlock(blk, op, wBefore, limit, wrapped)
	// --- optimality (C11)
	if x.spec.Type == "OSAP" && op.F&lz.NoTrailingLiterals == 0 && !x.nilSeen && (x.want == "C11") && !wrapped {
		x.checkOptimal(blk, wBefore, n)
	}
	x.w = wBefore + n
	// the block is the caller's: it may do with its memory what it likes
	// while the parser goes on (a parser that kept a reference to it, or
	// handed out its own buffer, works on overwritten data from here on)
	for i := range blk.Literals {
		blk.Literals[i] ^= 0x5a
	}
	for i := range blk.Sequences {
		blk.Sequences[i] = lz.Seq{LitLen: 0xfffffff1, MatchLen: 0xfffffff2, Offset: 0xfffffff3, Aux: 0xfffffff4}
	}
	if op.Re {
		x.blk = *blk
	}
	return ob
}

func isSimErr(err error) bool { return isReaderFault(err) }

// checkBlock walks the block against the model.
func (x *pexec) checkBlock(blk *lz.Block, op *Op, w, limit int, wrapped bool) {
	S := x.S
	blockEnd := w + limit
	pos := w
	lits := blk.Literals
	minM := x.spec.minMatch()
	maxM := x.spec.maxMatch()
	ws := x.bc.WindowSize
	hashP := x.spec.Type != "GSAP" && x.spec.Type != "OSAP"
	backward := x.spec.Type == "BHP" || x.spec.Type == "BDHP"
	greedy := x.spec.Type == "GSAP" && !x.nilSeen && !wrapped && x.want == "C12"
	contentOK := len(x.out) == w && bytes.Equal(x.out, S[:w]) // history intact so far
	out := x.out
	bad := false
	checkLiteralGSAP := func(from, to int) {
		if !greedy || x.bc.BufferSize > ws {
			return
		}
		for q := from; q < to; q++ {
			if L := x.longestPrevAt(q, blockEnd); L >= x.spec.minMatch() {
				x.fail("C12", "literal_despite_match", "gsap_literal", "byte at stream position %d emitted as literal although a match of length %d >= MinMatchLen=%d is available (block [%d,%d))", q, L, x.spec.minMatch(), w, blockEnd)
			}
		}
	}
	for i, s := range blk.Sequences {
		if int64(s.LitLen) > int64(len(lits)) {
			// covered by sum check above, but per-sequence for safety
			x.fail("C02", "litlen_exceeds_literals", "", "sequence %d claims %d literals, %d remain", i, s.LitLen, len(lits))
			x.abort("LitLen exceeds literals")
		}
		checkLiteralGSAP(pos, pos+int(s.LitLen))
		out = append(out, lits[:s.LitLen]...)
		lits = lits[s.LitLen:]
		pos += int(s.LitLen)
		ms := pos // match start (absolute)
		// C02
		if s.Aux != 0 {
			x.fail("C02", "aux_nonzero", "", "sequence %d has Aux=%d", i, s.Aux)
		}
		if s.Offset < 1 || int64(s.Offset) > int64(ws) {
			x.fail("C02", "offset_outside_window", "", "sequence %d at stream position %d has Offset=%d, WindowSize=%d", i, ms, s.Offset, ws)
		}
		if int64(s.Offset) > int64(ms) {
			x.fail("C02", "offset_before_stream_start", "", "sequence %d at stream position %d has Offset=%d (only %d bytes precede it since Reset)", i, ms, s.Offset, ms)
		}
		if int(s.MatchLen) < minM {
			x.fail("C02", "match_too_short", "", "sequence %d has MatchLen=%d, minimum is %d", i, s.MatchLen, minM)
		}
		if maxM > 0 && int(s.MatchLen) > maxM {
			x.fail("C02", "match_too_long", "", "sequence %d has MatchLen=%d, MaxMatchLen is %d", i, s.MatchLen, maxM)
		}
		if ms > ws {
			x.probe("seq_beyond_window")
		}
		if s.Offset == 0 || int64(s.Offset) > int64(len(out)) || int64(s.MatchLen) > int64(len(S)) {
			x.fail("C01", "unexpandable", "", "sequence %d: Offset=%d MatchLen=%d with %d bytes of history", i, s.Offset, s.MatchLen, len(out))
			if x.nilSeen {
				x.fail("C14", "unexpandable_after_skip", "", "sequence %d: Offset=%d with %d bytes of history", i, s.Offset, len(out))
			}
			bad = true
			break
		}
		o := int(s.Offset)
		m := int(s.MatchLen)
		for j := 0; j < m; j++ {
			out = append(out, out[len(out)-o])
		}
		pos += m
		if o < m {
			x.probe("match_overlapping")
		}
		if m >= 16 {
			x.probe("match_len>=16")
		}
		if pos == blockEnd {
			x.probe("match_clipped_at_block_end")
		}
		// C19 (a) right-maximality, (b) backward rule — only meaningful when
		// the emitted match is a true match (else C01 reports)
		if x.spec.Type != "OSAP" && contentOK && pos <= len(S) && bytes.Equal(out[ms:pos], S[ms:pos]) && ms-o >= 0 {
			if pos < blockEnd && S[pos] == S[pos-o] {
				x.fail("C19", "not_right_maximal", "", "%s match at %d (len %d, offset %d) could be extended: S[%d]==S[%d] and block ends at %d", x.spec.Type, ms, m, o, pos, pos-o, blockEnd)
			}
			if m >= 9 && pos < blockEnd {
				x.probe(fmt.Sprintf("len_mod_8=%d", m%8))
			}
			if backward && s.LitLen > 0 && ms-1-o >= x.off && !wrapped {
				if S[ms-1] == S[ms-1-o] {
					x.fail("C19", "backward_extendable", "", "%s left literal %#x at %d in front of a match with offset %d although S[%d] is equal and buffered", x.spec.Type, S[ms-1], ms-1, o, ms-1-o)
				}
				x.probe("backward_checked")
			}
		}
		// C12 clause 1
		if greedy && contentOK {
			L := x.longestPrevAt(ms, blockEnd)
			if L == oracleGaveUp {
				x.probe("gsap_oracle_gave_up")
			} else if m != L {
				x.fail("C12", "not_longest", "gsap_not_longest", "GSAP match at %d has length %d, longest available against buffered data [%d,%d) is %d (block end %d)", ms, m, x.off, ms, L, blockEnd)
			}
			x.probe("gsap_match_checked")
		}
		_ = hashP
	}
	if !bad {
		checkLiteralGSAP(pos, pos+len(lits))
		out = append(out, lits...)
		pos += len(lits)
	}
	// C01: the expansion equals the bytes fed (length from the block)
	if !bad {
		if len(out) > len(S) || !bytes.Equal(out, S[:len(out)]) {
			d := firstDiff(out, S)
			x.fail("C01", "expansion_mismatch", "", "expansion differs from the bytes fed at stream position %d (block starts at %d; out has %d bytes, fed %d)", d, w, len(out), len(S))
			if x.nilSeen {
				x.fail("C14", "expansion_mismatch_after_skip", "", "after Parse(nil) the expansion differs from the stream at %d", d)
			}
			if wrapped {
				x.fail("C08", "expansion_mismatch", "", "blocks do not expand to the reader's bytes (first difference at %d)", d)
			}
			x.fail("C11", "invalid_parse", "", "OSAP block is not a parse of the block's bytes (first difference at %d)", d)
			x.abort("content mismatch")
		}
		x.out = out
	} else {
		x.abort("unexpandable block")
	}
	// C19 (c) run clause
	if op.F&lz.NoTrailingLiterals == 0 && limit >= 32 && !x.nilSeen {
		x.checkRun(blk, w, limit)
	}
}

func firstDiff(a, b []byte) int {
	n := len(a)
	if len(b) < n {
		n = len(b)
	}
	for i := 0; i < n; i++ {
		if a[i] != b[i] {
			return i
		}
	}
	return n
}

// checkRun: a block of >= 32 bytes that lies inside a run of one repeated
// byte (the byte before the block, still buffered, is the same byte) carries
// at most one literal for the hash parsers and at most MinMatchLen for
// GSAP/OSAP (MinMatchLen <= 8; GSAP needs WindowSize >= 2).
func (x *pexec) checkRun(blk *lz.Block, w, n int) {
	S := x.S
	c := S[w]
	for i := w; i < w+n; i++ {
		if S[i] != c {
			return
		}
	}
	bound := 1
	switch x.spec.Type {
	case "GSAP":
		if x.bc.WindowSize < 2 || x.spec.minMatch() > 8 {
			return
		}
		bound = x.spec.minMatch()
	case "OSAP":
		if x.spec.minMatch() > 8 || x.spec.maxMatch() < x.spec.minMatch() {
			return
		}
		bound = x.spec.minMatch()
	}
	x.probe("run_block")
	if c == 0 {
		x.probe("run_block_zero_byte")
	}
	if x.bc.WindowSize == 1 {
		x.probe("run_block_ws_1")
	}
	if len(blk.Literals) > bound {
		sig := ""
		if x.spec.Type == "GSAP" && x.gsapWindowBlind(blk, w, n) {
			sig = "gsap_window_blind"
		}
		if x.spec.Type == "BUP" && x.bupUnhashableTail(blk, w, n, c) {
			sig = "bup_unhashable_tail"
		}
		x.fail("C19", "run_not_compressed", sig, "%s block of %d bytes inside a run of %#x carries %d literals (bound %d)", x.spec.Type, n, c, len(blk.Literals), bound)
	}
}

// bupUnhashableTail recognises finding F21: all literals of the run block are
// trailing literals, fewer than InputLen (positions that cannot be hashed any
// more), behind a match whose source lies in an earlier, shorter run of the
// same byte (the source byte that follows the match source differs).
func (x *pexec) bupUnhashableTail(blk *lz.Block, w, n int, c byte) bool {
	cfg, ok := x.parser.ParserConfig().(*lz.BUPConfig)
	if !ok || len(blk.Sequences) == 0 {
		return false
	}
	pos := w
	for _, s := range blk.Sequences {
		if s.LitLen != 0 {
			return false
		}
		pos += int(s.MatchLen)
	}
	if len(blk.Literals) >= cfg.InputLen || pos+len(blk.Literals) != w+n {
		return false
	}
	last := blk.Sequences[len(blk.Sequences)-1]
	src := pos - int(last.Offset) // source byte that follows the match source
	return src >= x.off && src < len(x.S) && x.S[src] != c
}

func (x *pexec) checkOptimal(blk *lz.Block, w, n int) {
	got := blockCost(blk)
	var opt uint64
	if len(x.S) < 1<<14 || x.spec.minMatch() < 2 {
		opt = optimalCost(x.S, x.off, w, n, x.bc.WindowSize, x.spec.minMatch(), x.spec.maxMatch())
	} else {
		var ok bool
		if opt, ok = x.optimalCostIndexed(w, n); !ok {
			x.probe("osap_oracle_gave_up")
			return
		}
		x.probe("osap_block_checked_indexed")
	}
	x.probe("osap_block_checked")
	if len(blk.Sequences) >= 2 {
		x.probe("osap_multi_seq")
	}
	if got != opt {
		x.fail("C11", "not_optimal", "", "OSAP block at %d (n=%d) costs %d bits, optimum is %d", w, n, got, opt)
	}
}

// --- Parse(nil) --------------------------------------------------------------

func (x *pexec) doParseNil(op *Op) string {
	if x.pb != nil || x.wp != nil {
		return "skip"
	}
	unparsed := len(x.S) - x.w
	var n int
	var err error
	pn, hang := x.call(x.budget(0), func() { n, err = x.parser.Parse(nil, op.F) })
	if pn != "" {
		x.libPanic("Parse(nil)", pn, hang, "C16", "C14")
	}
	ob := fmt.Sprintf("ParseNil f=%d n=%d err=%s", op.F, n, errName(err))
	exp := unparsed
	if x.bc.BlockSize < exp {
		exp = x.bc.BlockSize
	}
	if unparsed == 0 {
		if !(n == 0 && err == lz.ErrEmptyBuffer) {
			x.fail("C14", "nil_empty", "", "Parse(nil) with nothing buffered returned (%d, %s), want (0, ErrEmptyBuffer) — repeated calls do not drain", n, errName(err))
			x.abort("Parse(nil) mismatch")
		}
		x.probe("nil_drains_to_empty")
		return ob
	}
	if n != exp || err != nil {
		x.fail("C14", "nil_count", "", "Parse(nil) with %d unparsed bytes and BlockSize %d returned (%d, %s), want (%d, nil)", unparsed, x.bc.BlockSize, n, errName(err), exp)
		if err != nil && err != lz.ErrEmptyBuffer {
			x.fail("C16", "undocumented_error", "", "Parse(nil) returned %s", errName(err))
		}
		x.abort("Parse(nil) mismatch")
	}
	x.out = append(x.out, x.S[x.w:x.w+n]...)
	x.w += n
	x.nilSeen = true
	x.probe("parse_nil")
	return ob
}

// --- Shrink ------------------------------------------------------------------

func (x *pexec) doShrink(op *Op) string {
	if x.wp != nil {
		return "skip"
	}
	var d int
	pn, hang := x.call(x.budget(0), func() {
		if x.pb != nil {
			d = x.pb.Shrink()
		} else {
			d = x.parser.Shrink()
		}
	})
	if pn != "" {
		x.libPanic("Shrink", pn, hang, "C16", "C15")
	}
	exp := (x.w - x.off) - x.bc.ShrinkSize
	if exp < 0 {
		exp = 0
	}
	if d != exp {
		x.fail("C15", "shrink_amount", "", "Shrink returned %d with %d parsed bytes buffered and ShrinkSize %d, want %d", d, x.w-x.off, x.bc.ShrinkSize, exp)
		x.fail("C03", "parse_position", "", "Shrink returned %d, the parse position implied by the reported n values requires %d", d, exp)
		if d < 0 || d > x.w-x.off {
			x.abort("Shrink returned impossible amount")
		}
	}
	if d > 0 {
		x.probe("shrink_discarded")
		x.shrinks++
	}
	x.off += d
	return fmt.Sprintf("Shrink=%d", d)
}

// --- Reset -------------------------------------------------------------------

func (x *pexec) doReset(op *Op) string {
	if x.wp != nil {
		return "skip"
	}
	var data []byte
	src := x.take(op.N)
	if op.X == 5 {
		// an empty but non-nil slice (with some capacity)
		src = src[:0]
		data = make([]byte, 0, 16)
	} else if op.X == 6 && len(src) > 0 && len(src) <= x.bc.BufferSize && cap(x.callerBuf) >= len(src)+7 {
		// the caller refills the buffer it handed over last time and hands
		// the same array over again (same address, often the same length)
		data = x.callerBuf[:len(src)]
		copy(data, src)
		x.probe("reset_same_caller_buffer")
	} else if op.N > 0 {
		switch op.X {
		case 2:
			data = make([]byte, len(src), len(src)+7)
		case 3:
			data = make([]byte, len(src), len(src)+7+x.bc.BufferSize+op.N+500)
			x.probe("reset_with_aliased_cap")
		case 4:
			data = make([]byte, len(src), len(src)+3)
		default:
			data = make([]byte, len(src))
		}
		copy(data, src)
		if len(src) == 0 {
			data = nil
		}
	}
	if cap(data) >= len(data)+7 && len(data) > 0 {
		x.callerBuf = data[:0:cap(data)]
	}
	var err error
	pn, hang := x.call(x.budget(len(data)), func() {
		if x.pb != nil {
			err = x.pb.Reset(data)
		} else {
			err = x.parser.Reset(data)
		}
	})
	if pn != "" {
		x.libPanic("Reset", pn, hang, "C16", "C15")
	}
	ob := fmt.Sprintf("Reset(%d,cap%d) err=%s", len(data), op.X, errName(err))
	if len(data) > x.bc.BufferSize {
		x.probe("reset_oversize")
		if err == nil {
			x.fail("C15", "holds_more_than_buffersize", "", "Reset accepted %d bytes, BufferSize is %d", len(data), x.bc.BufferSize)
			x.abort("oversize reset accepted")
		}
		return ob // refused: state unchanged
	}
	if err != nil {
		x.fail("C16", "undocumented_error", "", "Reset(len %d <= BufferSize %d) returned %v", len(data), x.bc.BufferSize, err)
		x.fail("C15", "reset_refused", "", "Reset(len %d <= BufferSize %d) returned %v", len(data), x.bc.BufferSize, err)
		x.abort("reset refused")
	}
	if !bytes.Equal(data, src[:len(data)]) {
		x.fail("C15", "reset_modifies_argument", "", "Reset modified the bytes handed in")
	}
	x.probe("reset")
	if len(data) > 0 {
		x.probe("reset_with_data")
		x.fills++
	}
	x.S = append([]byte(nil), data...)
	x.gram = nil
	x.cursor += len(data)
	x.off, x.w = 0, 0
	x.out = nil
	x.nilSeen = false
	return ob
}

func (x *pexec) doWReset(op *Op) string {
	if x.wp == nil {
		return "skip"
	}
	// bytes the old reader handed out are consumed from the input
	x.cursor += x.rd.HandedOut()
	if x.cursor > len(x.t.Input) {
		x.cursor = len(x.t.Input)
	}
	if op.N > 0 && len(x.t.Input) > 0 {
		// the new reader serves the input again from an explicit position, so
		// that a reset after the old reader was exhausted still has data
		x.cursor = op.N % len(x.t.Input)
	}
	x.rd = NewSimReader(x.t.Input[x.cursor:], op.Plan, x.res.Fired)
	pn, hang := x.call(x.budget(0), func() { x.wp.Reset(x.rd) })
	if pn != "" {
		x.libPanic("WrappedParser.Reset", pn, hang, "C16")
	}
	x.S = nil
	x.gram = nil
	x.off, x.w = 0, 0
	x.out = nil
	x.eofSeen = false
	x.nilSeen = false
	x.probe("wreset")
	return "WReset"
}

// --- ReadAt / PeekAt / ByteAt -----------------------------------------------

func (x *pexec) doReadAt(op *Op) string {
	if x.wp != nil {
		return "skip"
	}
	end := len(x.S)
	var base int
	switch op.Base {
	case "off":
		base = x.off
	case "w":
		base = x.w
	default:
		base = end
	}
	pos := base + op.X
	idx := pos - x.off // index into retained range
	retained := end - x.off
	inside := idx >= 0 && idx < retained
	switch op.K {
	case "ByteAt":
		var c byte
		var err error
		pn, hang := x.call(x.budget(0), func() {
			if x.pb != nil {
				c, err = x.pb.ByteAt(int64(pos))
			} else {
				c, err = x.parser.ByteAt(int64(pos))
			}
		})
		if pn != "" {
			x.libPanic(fmt.Sprintf("ByteAt(%d) with retained range [%d,%d)", pos, x.off, end), pn, hang, "C15")
		}
		x.probe(boundaryProbe(idx, retained))
		switch {
		case inside:
			if err != nil || c != x.S[pos] {
				x.fail("C15", "byteat_value", "", "ByteAt(%d) = (%#x, %s), want (%#x, nil); retained [%d,%d)", pos, c, errName(err), x.S[pos], x.off, end)
			}
		case idx == retained:
			if err != lz.ErrEndOfBuffer {
				x.fail("C15", "byteat_end", "", "ByteAt(%d) exactly at the end of the data returned %s, want ErrEndOfBuffer", pos, errName(err))
			}
		default:
			if err != lz.ErrOutOfBuffer {
				x.fail("C15", "byteat_outside", "", "ByteAt(%d) outside retained [%d,%d) returned %s, want ErrOutOfBuffer", pos, x.off, end, errName(err))
			}
		}
		return fmt.Sprintf("ByteAt(%s%+d)=%d,%s", op.Base, op.X, c, errName(err))
	case "ReadAt", "PeekAt":
		if op.K == "PeekAt" && x.pb == nil {
			return "skip"
		}
		n := op.N
		if n < 0 {
			n = 0
		}
		var got []byte
		var cnt int
		var err error
		pn, hang := x.call(x.budget(minInt(n, x.bc.BufferSize+8)), func() {
			if op.K == "PeekAt" {
				got, err = x.pb.PeekAt(n, int64(pos))
				cnt = len(got)
			} else {
				buf := make([]byte, n)
				if x.pb != nil {
					cnt, err = x.pb.ReadAt(buf, int64(pos))
				} else {
					cnt, err = x.parser.ReadAt(buf, int64(pos))
				}
				if cnt >= 0 && cnt <= n {
					got = buf[:cnt]
				}
			}
		})
		if pn != "" {
			x.libPanic(fmt.Sprintf("%s(%d bytes at %d) with retained range [%d,%d)", op.K, n, pos, x.off, end), pn, hang, "C15")
		}
		x.probe(boundaryProbe(idx, retained))
		if !inside {
			if err != lz.ErrOutOfBuffer {
				x.fail("C15", "readat_outside", "", "%s at %d outside retained [%d,%d) returned %s (n=%d), want ErrOutOfBuffer", op.K, pos, x.off, end, errName(err), cnt)
			}
			if cnt != 0 {
				x.fail("C15", "readat_outside", "", "%s at %d outside the buffer returned %d bytes", op.K, pos, cnt)
			}
			return fmt.Sprintf("%s(%s%+d,%d)=%d,%s", op.K, op.Base, op.X, n, cnt, errName(err))
		}
		avail := retained - idx
		if op.K == "ReadAt" {
			want := n
			if avail < want {
				want = avail
			}
			if cnt != want {
				x.fail("C15", "readat_count", "", "ReadAt(%d bytes at %d) returned n=%d, want %d (retained [%d,%d))", n, pos, cnt, want, x.off, end)
			}
		} else if cnt < avail && cnt < n {
			x.fail("C15", "peekat_count", "", "PeekAt(%d at %d) returned %d bytes although %d are available", n, pos, cnt, avail)
		}
		if cnt > avail {
			x.fail("C15", "readat_beyond_end", "", "%s at %d returned %d bytes, only %d retained", op.K, pos, cnt, avail)
			cnt = avail
			got = got[:cnt]
		}
		if !bytes.Equal(got, x.S[pos:pos+cnt]) {
			x.fail("C15", "readat_value", "", "%s at %d returned wrong bytes (first difference at +%d)", op.K, pos, firstDiff(got, x.S[pos:pos+cnt]))
		}
		if avail < n {
			if err != lz.ErrEndOfBuffer {
				x.fail("C15", "readat_end", "", "%s(%d bytes at %d) ran past the end (%d available) but returned %s, want ErrEndOfBuffer", op.K, n, pos, avail, errName(err))
			}
		} else if err != nil {
			x.fail("C15", "readat_err", "", "%s(%d bytes at %d) fully inside the buffer returned %s", op.K, n, pos, errName(err))
		}
		return fmt.Sprintf("%s(%s%+d,%d)=%d,%s", op.K, op.Base, op.X, n, cnt, errName(err))
	}
	return "skip"
}

func boundaryProbe(idx, retained int) string {
	switch {
	case idx == -1:
		return "probe_off-1"
	case idx == 0 && retained > 0:
		return "probe_off"
	case idx == retained-1 && retained > 0:
		return "probe_end-1"
	case idx == retained:
		return "probe_end"
	case idx == retained+1:
		return "probe_end+1"
	case idx < 0:
		return "probe_before"
	case idx > retained:
		return "probe_beyond"
	}
	return "probe_inside"
}

// --- AdvanceW (ParserBuffer target: the harness is the out-of-package parser)

func (x *pexec) doAdvanceW(op *Op) string {
	if x.pb == nil {
		return "skip"
	}
	k := op.N
	if k > len(x.S)-x.w {
		k = len(x.S) - x.w
	}
	if k < 0 {
		k = 0
	}
	x.pb.W += k
	x.out = append(x.out, x.S[x.w:x.w+k]...)
	x.w += k
	x.nilSeen = true
	return fmt.Sprintf("AdvanceW(%d)", k)
}

// gsapWindowBlind is the predicate of known finding F16: every literal of the
// block is explained by GSAP choosing its candidate among the suffix-array
// neighbours without regard to the window: at that position the longest match
// whose source lies outside the usable window (distance >= WindowSize) is at
// least as long as the longest match inside it, so the candidate GSAP found
// was rejected by the window test and the byte became a literal.
func (x *pexec) gsapWindowBlind(blk *lz.Block, w, n int) bool {
	S := x.S
	end := w + n
	ws := x.bc.WindowSize
	best := func(lo, hi, pos int) int { // max lcp over sources f in [lo,hi)
		b := 0
		if lo < x.off {
			lo = x.off
		}
		for f := lo; f < hi && f < pos; f++ {
			m := 0
			for pos+m < end && S[f+m] == S[pos+m] {
				m++
			}
			if m > b {
				b = m
			}
		}
		return b
	}
	pos := w
	isLit := make([]bool, n)
	for _, s := range blk.Sequences {
		for k := 0; k < int(s.LitLen) && pos-w < n; k++ {
			isLit[pos-w] = true
			pos++
		}
		pos += int(s.MatchLen)
	}
	for ; pos < end; pos++ {
		isLit[pos-w] = true
	}
	for i, l := range isLit {
		if !l {
			continue
		}
		q := w + i
		in := best(q-ws+1, q, q) // offsets 1..WS-1 (GSAP uses offsets below WindowSize)
		if in < x.spec.minMatch() {
			continue // literal justified
		}
		out := best(x.off, q-ws+1, q)
		if out < in {
			return false
		}
	}
	return true
}

// longestPrevAt is longestPrev(x.S, x.off, pos, end) for streams of any
// length: beyond 16 KiB it looks only at the earlier positions that start
// with the same two bytes (every match of at least two bytes does), kept in
// an index that grows with the stream. A query that would cost more than
// 2^23 byte comparisons gives up (oracleGaveUp: no verdict, never an alarm).
const oracleGaveUp = -1

// gramIndex extends the two-byte index to all positions below pos.
func (x *pexec) gramIndex(pos int) {
	S := x.S
	if x.gram == nil {
		x.gram = make([][]int32, 1<<16)
		x.gramN = 0
	}
	for ; x.gramN < pos && x.gramN+1 < len(S); x.gramN++ {
		k := int(S[x.gramN])<<8 | int(S[x.gramN+1])
		x.gram[k] = append(x.gram[k], int32(x.gramN))
	}
}

// optimalCostIndexed is optimalCost for long streams: the same forward
// dynamic program, with the match sources of a position taken from the
// two-byte index (every match of MinMatchLen >= 2 starts with the same two
// bytes as its source). ok=false: more than 2^27 steps, no verdict.
func (x *pexec) optimalCostIndexed(w, n int) (cost uint64, ok bool) {
	const inf = ^uint64(0) >> 1
	S := x.S
	window, minLen, maxLen := x.bc.WindowSize, x.spec.minMatch(), x.spec.maxMatch()
	x.gramIndex(w + n)
	d := make([]uint64, n+1)
	for i := 1; i <= n; i++ {
		d[i] = inf
	}
	lit := lz.XZCost(1, 0)
	work := 0
	for i := 0; i < n; i++ {
		if c := d[i] + lit; c < d[i+1] {
			d[i+1] = c
		}
		pos := w + i
		lo := pos - window
		if lo < x.off {
			lo = x.off
		}
		maxm := n - i
		if maxm > maxLen {
			maxm = maxLen
		}
		if maxm < minLen || pos+2 > len(S) {
			continue
		}
		for _, f32 := range x.gram[int(S[pos])<<8|int(S[pos+1])] {
			f := int(f32)
			if f < lo {
				continue
			}
			if f >= pos {
				break
			}
			m := 0
			for m < maxm && S[f+m] == S[pos+m] {
				m++
			}
			if work += m + 1; work > 1<<27 {
				return 0, false
			}
			if m < minLen {
				continue
			}
			o := uint32(pos - f)
			for k := minLen; k <= m; k++ {
				if c := d[i] + lz.XZCost(uint32(k), o); c < d[i+k] {
					d[i+k] = c
				}
			}
			work += m
		}
	}
	return d[n], true
}

func (x *pexec) longestPrevAt(pos, end int) int {
	S := x.S
	if len(S) < 1<<14 || x.spec.minMatch() < 2 {
		L, _ := longestPrev(S, x.off, pos, end)
		return L
	}
	x.gramIndex(pos)
	if pos+2 > end {
		return 0 // nothing of two bytes or more fits
	}
	best, work := 0, 0
	for _, f32 := range x.gram[int(S[pos])<<8|int(S[pos+1])] {
		f := int(f32)
		if f < x.off {
			continue
		}
		if f >= pos {
			break
		}
		m := 0
		for pos+m < end && S[f+m] == S[pos+m] {
			m++
		}
		if m > best {
			best = m
		}
		if work += m + 1; work > 1<<23 {
			return oracleGaveUp
		}
	}
	return best
}
