package main

import (
	"fmt"

	"github.com/ulikunitz/lz"
)

// expandBlock applies blk to out with the plain LZ77 expander of C01: copy
// LitLen literals, copy MatchLen bytes from Offset back one at a time,
// finally the remaining literals. An error means the block is not expandable.
func expandBlock(out []byte, blk *lz.Block) ([]byte, error) {
	lits := blk.Literals
	for i, s := range blk.Sequences {
		if int64(s.LitLen) > int64(len(lits)) {
			return out, fmt.Errorf("sequence %d: LitLen %d exceeds remaining literals %d", i, s.LitLen, len(lits))
		}
		out = append(out, lits[:s.LitLen]...)
		lits = lits[s.LitLen:]
		if s.MatchLen > 0 {
			if s.Offset == 0 || int64(s.Offset) > int64(len(out)) {
				return out, fmt.Errorf("sequence %d: Offset %d with %d bytes of history", i, s.Offset, len(out))
			}
			if s.MatchLen > 1<<28 {
				return out, fmt.Errorf("sequence %d: MatchLen %d absurd", i, s.MatchLen)
			}
			o := int(s.Offset)
			for j := 0; j < int(s.MatchLen); j++ {
				out = append(out, out[len(out)-o])
			}
		}
	}
	out = append(out, lits...)
	return out, nil
}

func commonPrefix(a, b []byte) int {
	n := 0
	for n < len(a) && n < len(b) && a[n] == b[n] {
		n++
	}
	return n
}

// longestPrev returns max over from <= f < pos of lcp(s[f:end], s[pos:end])
// (overlap allowed, clipped at end) and the nearest f achieving it.
func longestPrev(s []byte, from, pos, end int) (best, at int) {
	at = -1
	for f := pos - 1; f >= from; f-- {
		m := 0
		for pos+m < end && s[f+m] == s[pos+m] {
			m++
		}
		if m > best {
			best, at = m, f
		}
	}
	return best, at
}

// optimalCost computes the minimum cost of an LZ77 parse of s[w:w+n] with
// match sources in s[from:], offsets <= window, lengths in [minLen,maxLen],
// matches clipped at the block end; literal cost XZCost(1,0), match cost
// XZCost(m,o). Independent forward DP; the exported cost function is the
// configured cost function (an input of the property).
func optimalCost(s []byte, from, w, n, window, minLen, maxLen int) uint64 {
	const inf = ^uint64(0) >> 1
	d := make([]uint64, n+1)
	for i := 1; i <= n; i++ {
		d[i] = inf
	}
	lit := lz.XZCost(1, 0)
	for i := 0; i < n; i++ {
		if d[i] == inf {
			continue
		}
		if c := d[i] + lit; c < d[i+1] {
			d[i+1] = c
		}
		pos := w + i
		lo := pos - window
		if lo < from {
			lo = from
		}
		maxm := n - i
		if maxm > maxLen {
			maxm = maxLen
		}
		if maxm < minLen {
			continue
		}
		for f := pos - 1; f >= lo; f-- {
			m := 0
			for m < maxm && s[f+m] == s[pos+m] {
				m++
			}
			if m < minLen {
				continue
			}
			o := uint32(pos - f)
			for k := minLen; k <= m; k++ {
				if c := d[i] + lz.XZCost(uint32(k), o); c < d[i+k] {
					d[i+k] = c
				}
			}
		}
	}
	return d[n]
}

func blockCost(blk *lz.Block) uint64 {
	c := lz.XZCost(1, 0) * uint64(len(blk.Literals))
	for _, s := range blk.Sequences {
		c += lz.XZCost(s.MatchLen, s.Offset)
	}
	return c
}

func cloneBlock(b *lz.Block) lz.Block {
	var c lz.Block
	c.Sequences = append([]lz.Seq(nil), b.Sequences...)
	c.Literals = append([]byte(nil), b.Literals...)
	return c
}

func blocksEqual(a, b *lz.Block) bool {
	if len(a.Sequences) != len(b.Sequences) || len(a.Literals) != len(b.Literals) {
		return false
	}
	for i := range a.Sequences {
		if a.Sequences[i] != b.Sequences[i] {
			return false
		}
	}
	for i := range a.Literals {
		if a.Literals[i] != b.Literals[i] {
			return false
		}
	}
	return true
}
