package main

import (
	"encoding/json"
	"fmt"
)

// A Trace is one complete simulated execution: configuration, input stream,
// operations, fault plans and (multi world) the schedule. Generation is a pure
// function seed -> Trace; execution interprets the Trace against the real
// library and the reference model. Replay files are Traces; replay never draws
// from a PRNG.
type Trace struct {
	Prop  string `json:"prop"`
	World string `json:"world"` // parser | decoder | pipe | multi | config
	Seed  uint64 `json:"seed"`
	Run   int    `json:"run"`
	Note  string `json:"note,omitempty"` // profile description (informational)

	P     *ParserSpec  `json:"parser,omitempty"`
	D     *DecoderSpec `json:"decoder,omitempty"`
	Input []byte       `json:"input,omitempty"`
	Ops   []Op         `json:"ops,omitempty"`

	// C13 oracle 1: index of the Reset op at which the fresh twin starts.
	ResetAt int `json:"reset_at,omitempty"`

	// multi world
	Tasks []*Trace `json:"tasks,omitempty"`
	Sched *Sched   `json:"sched,omitempty"`

	// config world (C16 clause 1)
	Cfgs []ParserSpec `json:"cfgs,omitempty"`

	// replay files only
	Expect *Expect `json:"expect,omitempty"`
	// History: runs (generated from seed/tier) that the replay executes in
	// this order, in the same process, before the trace itself. Needed only
	// when a violation depends on process-wide library state created by
	// earlier instances (e.g. a package-level counter or cache).
	History *History `json:"history,omitempty"`
}

type History struct {
	Seed uint64 `json:"verif_seed"`
	Tier string `json:"tier"`
	Runs []int  `json:"runs"`
}

type Expect struct {
	Prop   string `json:"prop"`
	Clause string `json:"clause"`
	Msg    string `json:"msg"`
	Step   int    `json:"step"`
	Sig    string `json:"sig,omitempty"`
}

// ParserSpec names a parser type and every configuration field explicitly.
// Zero means "default" exactly as for the library.
type ParserSpec struct {
	Type   string `json:"type"`             // HP BHP DHP BDHP BUP GSAP OSAP
	Target string `json:"target,omitempty"` // "" (Parser interface) | buffer (ParserBuffer direct) | wrap
	// PreUse > 0 (wrap target): the parser is used directly before it is wrapped
	// (PreUse bytes written, for even values one block parsed); the wrapper is
	// then created without a reader and given its reader through Reset.
	PreUse int `json:"preuse,omitempty"`

	ShrinkSize int `json:"shrink,omitempty"`
	BufferSize int `json:"buffer,omitempty"`
	WindowSize int `json:"window,omitempty"`
	BlockSize  int `json:"block,omitempty"`

	InputLen    int    `json:"il,omitempty"`
	HashBits    int    `json:"hb,omitempty"`
	InputLen1   int    `json:"il1,omitempty"`
	HashBits1   int    `json:"hb1,omitempty"`
	InputLen2   int    `json:"il2,omitempty"`
	HashBits2   int    `json:"hb2,omitempty"`
	BucketSize  int    `json:"bs,omitempty"`
	MinMatchLen int    `json:"minm,omitempty"`
	MaxMatchLen int    `json:"maxm,omitempty"`
	Cost        string `json:"cost,omitempty"`

	// Wrap target: plan of the reader handed to Wrap.
	Plan *RPlan `json:"plan,omitempty"`
}

type DecoderSpec struct {
	Target     string `json:"target"` // buffer | decoder
	WindowSize int    `json:"window"`
	BufferSize int    `json:"buffer"`
	WPlan      *WPlan `json:"wplan,omitempty"`
}

// Op is one operation of a trace. Which fields matter depends on K.
type Op struct {
	K    string    `json:"k"`
	N    int       `json:"n,omitempty"`    // take / length / match length
	X    int       `json:"x,omitempty"`    // kind specific (extra, delta, byte, capacity class)
	F    int       `json:"f,omitempty"`    // Parse flags
	Base string    `json:"base,omitempty"` // off | w | end
	Re   bool      `json:"re,omitempty"`   // Parse: reuse previous block
	Sel  float64   `json:"sel,omitempty"`  // offset selector (0,1]
	Bad  string    `json:"bad,omitempty"`  // malformation kind
	Plan *RPlan    `json:"plan,omitempty"`
	WP   *WPlan    `json:"wplan,omitempty"`
	Seqs []SeqSpec `json:"seqs,omitempty"`
	Lits []byte    `json:"lits,omitempty"`
}

// SeqSpec is a model-relative sequence: the offset is resolved against the
// model's current window limit when the operation executes.
type SeqSpec struct {
	L   int     `json:"l"`
	M   int     `json:"m"`
	Sel float64 `json:"sel,omitempty"`
	Bad string  `json:"bad,omitempty"` // off0 | offbig | litlen | rawoff | rawlit
	D   int64   `json:"d,omitempty"`   // malformation distance / raw value
}

// Reader fault plan, keyed by stream position relative to the reader's data.
type RPlan struct {
	Cuts        []int    `json:"cuts,omitempty"`     // no read crosses these offsets
	ByteFrom    int      `json:"bytefrom,omitempty"` // [ByteFrom,ByteTo): one byte per call
	ByteTo      int      `json:"byteto,omitempty"`   //
	EOFWithData bool     `json:"eofdata,omitempty"`  // last chunk returned together with io.EOF
	MaxChunk    int      `json:"maxchunk,omitempty"` // 0 = unlimited
	Events      []REvent `json:"events,omitempty"`   // faults
	EOFEarly    int      `json:"eofearly,omitempty"` // >0: reader ends at this offset (truncated source) — stored +1
}

type REvent struct {
	At   int    `json:"at"`
	Kind string `json:"kind"`           // zero | err | sticky
	Keep int    `json:"keep,omitempty"` // err: bytes returned together with the error
	Rep  int    `json:"rep,omitempty"`  // zero/sticky: repetitions; -1 = forever (dead reader)
	ID   int    `json:"id"`
}

// Writer fault plan, keyed by writer call index.
type WPlan struct {
	Events []WEvent `json:"events,omitempty"`
	// DeadFrom > 0: every writer call with index >= DeadFrom-1 that has no
	// event of its own fails with (0, error DeadErr): the destination is
	// gone for good (C06 only: a call must still return).
	DeadFrom int    `json:"dead_from,omitempty"`
	DeadErr  string `json:"dead_err,omitempty"`
}

type WEvent struct {
	Call   int  `json:"call"`
	Accept int  `json:"accept"` // bytes accepted (< len); 0 = fail without progress
	Short  bool `json:"short,omitempty"`
	ID     int  `json:"id"`
	// Nil: the writer accepts 0 bytes and returns a nil error. This violates
	// the io.Writer contract and is used by C06 only, whose premise is merely
	// that the writer returns.
	Nil bool `json:"nil,omitempty"`
	// Err names a well-known error value the writer fails with instead of a
	// SimErr: "full" (lz.ErrFullBuffer: the destination is itself a bounded
	// buffer), "empty" (lz.ErrEmptyBuffer), "eof", "closed".
	Err string `json:"err,omitempty"`
}

// Sched is the explicit schedule of a multi world run: task i runs until it
// has passed Ticks yield points (0 = until it finishes), then the next
// segment starts.
type Sched struct {
	Segs []Seg `json:"segs"`
}

type Seg struct {
	Task  int   `json:"task"`
	Ticks int64 `json:"ticks"`
	Site  int   `json:"site,omitempty"` // informational: site at which the task was parked
}

func (t *Trace) JSON() []byte {
	b, err := json.MarshalIndent(t, "", " ")
	if err != nil {
		panic(err)
	}
	return b
}

func (t *Trace) Clone() *Trace {
	var c Trace
	if err := json.Unmarshal(t.JSON(), &c); err != nil {
		panic(err)
	}
	return &c
}

func (p *ParserSpec) String() string {
	return fmt.Sprintf("%s/%s buf=%d shr=%d win=%d blk=%d il=%d hb=%d il1=%d hb1=%d il2=%d hb2=%d bs=%d min=%d max=%d",
		p.Type, p.Target, p.BufferSize, p.ShrinkSize, p.WindowSize, p.BlockSize, p.InputLen, p.HashBits,
		p.InputLen1, p.HashBits1, p.InputLen2, p.HashBits2, p.BucketSize, p.MinMatchLen, p.MaxMatchLen)
}

// Violation is the verdict of an oracle.
type Violation struct {
	Prop   string `json:"prop"`
	Clause string `json:"clause"`
	Msg    string `json:"msg"`
	Step   int    `json:"step"`
	// Sig is the known-finding signature: a semantic predicate name computed
	// by the oracle ("" if none applies).
	Sig string `json:"sig,omitempty"`
}

func (v *Violation) String() string {
	return fmt.Sprintf("%s/%s at step %d: %s", v.Prop, v.Clause, v.Step, v.Msg)
}
