package main

import (
	"fmt"
	"math"

	"github.com/ulikunitz/lz"
)

// ---------------------------------------------------------------------------
// Input families

var inputFamilies = []string{"iid1", "iid2", "iid3", "iid4", "iid16", "iid256", "zeroheavy", "runs", "periodic",
	"copyback", "fib", "thue", "debruijn", "zeroprefix_runs", "tandem", "nested", "powers", "listtwice"}

func genInput(r *RNG, n int, fam string) []byte {
	b := make([]byte, n)
	base := byte(r.Intn(256))
	if r.Chance(0.3) {
		base = 0
	}
	switch fam {
	case "iid1":
		for i := range b {
			b[i] = base
		}
	case "iid2", "iid3", "iid4", "iid16", "iid256":
		k := map[string]int{"iid2": 2, "iid3": 3, "iid4": 4, "iid16": 16, "iid256": 256}[fam]
		for i := range b {
			b[i] = base + byte(r.Intn(k))
		}
	case "zeroheavy":
		for i := range b {
			if r.Chance(0.7) {
				b[i] = 0
			} else {
				b[i] = byte(r.Intn(3))
			}
		}
	case "runs":
		i := 0
		for i < n {
			c := base + byte(r.Intn(3))
			if r.Chance(0.2) {
				c = 0
			}
			l := 1 + r.Intn(80)
			if r.Chance(0.3) {
				l = 1 + r.Intn(4)
			}
			for ; l > 0 && i < n; l-- {
				b[i] = c
				i++
			}
		}
	case "zeroprefix_runs":
		// a few zero bytes, then long runs (the BUP "empty entry" corner)
		z := r.Intn(9)
		i := 0
		for ; i < z && i < n; i++ {
			b[i] = 0
		}
		for i < n {
			c := byte(1 + r.Intn(255))
			if r.Chance(0.15) {
				c = 0
			}
			l := 20 + r.Intn(150)
			for ; l > 0 && i < n; l-- {
				b[i] = c
				i++
			}
		}
	case "periodic":
		p := 1 + r.Intn(12)
		pat := make([]byte, p)
		for i := range pat {
			pat[i] = base + byte(r.Intn(4))
		}
		for i := range b {
			b[i] = pat[i%p]
			if r.Chance(0.01) {
				b[i] ^= 1
			}
		}
	case "copyback":
		i := 0
		for i < n {
			if i > 4 && r.Chance(0.6) {
				l := 3 + r.Intn(40)
				if r.Chance(0.2) {
					l = 3 + r.Intn(300)
				}
				o := 1 + r.Intn(i)
				if r.Chance(0.5) && i > 16 {
					o = 1 + r.Intn(16)
				}
				for ; l > 0 && i < n; l-- {
					b[i] = b[i-o]
					i++
				}
				if i < n && r.Chance(0.3) {
					b[i] = base + byte(r.Intn(8))
					i++
				}
			} else {
				l := 1 + r.Intn(6)
				for ; l > 0 && i < n; l-- {
					b[i] = base + byte(r.Intn(6))
					i++
				}
			}
		}
	case "tandem":
		// a unit with inner repeats, repeated several times with occasional
		// insertions: long tandem repeats (the rank-sorting phase of the suffix
		// sorter copies ranks inside such groups instead of sorting them)
		k := 2 + r.Intn(3)
		ul := 8 + r.Intn(110)
		unit := make([]byte, 0, ul)
		for len(unit) < ul {
			if len(unit) > 3 && r.Chance(0.5) {
				o := 1 + r.Intn(len(unit))
				for l := 1 + r.Intn(20); l > 0 && len(unit) < ul; l-- {
					unit = append(unit, unit[len(unit)-o])
				}
			} else {
				unit = append(unit, base+byte(r.Intn(k)))
			}
		}
		i := 0
		for i < n {
			for _, c := range unit {
				if i >= n {
					break
				}
				b[i] = c
				i++
			}
			if i < n && r.Chance(0.25) {
				b[i] = base + byte(r.Intn(k))
				i++
			}
		}
	case "nested":
		// repeats of repeats: a short word grows by appending powers w^r of
		// its own substrings, with a stray letter now and then; tandem repeats
		// on every scale (found to be what the suffix sorter's tandem-repeat
		// and budget paths need)
		k := 2 + r.Intn(3)
		w := make([]byte, 0, n+64)
		for i := 2 + r.Intn(5); i > 0; i-- {
			w = append(w, base+byte(r.Intn(k)))
		}
		for len(w) < n {
			l := 1 + r.Intn(len(w))
			if r.Chance(0.5) {
				l = 1 + r.Intn(min(len(w), 12))
			}
			a := len(w) - l
			if r.Chance(0.3) {
				a = r.Intn(len(w) - l + 1)
			}
			sub := append([]byte(nil), w[a:a+l]...)
			for rep := 1 + r.Intn(8); rep > 0 && len(w) < n; rep-- {
				w = append(w, sub...)
			}
			if r.Chance(0.4) {
				w = append(w, base+byte(r.Intn(k)))
			}
		}
		copy(b, w)
	case "powers":
		// unit = up to a dozen short words, each raised to a power, with stray
		// letters; text = a few repetitions of the unit. Measured on the
		// suffix sorter: this is the shape that exhausts the rank-sort budget
		// inside a tandem-repeat group (partial tandem-repeat copy, the path
		// of F18), about 1 sort in 100.
		k := 3 + r.Intn(2)
		var unit []byte
		for j := 1 + r.Intn(12); j > 0; j-- {
			w := make([]byte, 1+r.Intn(6))
			for i := range w {
				w[i] = base + byte(r.Intn(k))
			}
			for p := 1 + r.Intn(9); p > 0; p-- {
				unit = append(unit, w...)
			}
			if r.Chance(0.33) {
				unit = append(unit, base+byte(r.Intn(k)))
			}
		}
		for i := range b {
			b[i] = unit[i%len(unit)]
		}
	case "listtwice":
		// a sorted list of records (each a run of a two-byte word followed by
		// a common tail), written two or three times: tandem-repeat groups at
		// the bottom of the rank sorter's stack together with an exhausted
		// budget (measured: about 1 text in 100 takes that path)
		k := 2 + r.Intn(3)
		tail := make([]byte, 1+r.Intn(4))
		for i := range tail {
			tail[i] = base + byte(r.Intn(k))
		}
		var lines [][]byte
		for i := 2 + r.Intn(8); i > 0; i-- {
			w := []byte{base + byte(r.Intn(k)), base + byte(r.Intn(k))}
			var l []byte
			for p := 1 + r.Intn(8); p > 0; p-- {
				l = append(l, w...)
			}
			lines = append(lines, append(l, tail...))
		}
		// insertion sort (deterministic, no library order dependence)
		for i := 1; i < len(lines); i++ {
			for j := i; j > 0 && string(lines[j-1]) > string(lines[j]); j-- {
				lines[j-1], lines[j] = lines[j], lines[j-1]
			}
		}
		var list []byte
		for _, l := range lines {
			list = append(list, l...)
		}
		for i := range b {
			b[i] = list[i%len(list)]
		}
	case "unevenruns":
		// runs of one byte of different lengths (mostly a little above 256, the
		// depth at which substring sorters like to stop comparing) behind an
		// identical context and ended by the same byte
		c, d := base, base+1+byte(r.Intn(3))
		if r.Chance(0.3) {
			c, d = 0x00, 0xff
		}
		lo := r.Pick(2, 250, 257, 257, 270, 500)
		i := 0
		for i < len(b) {
			l := lo + r.Intn(16)
			for ; l > 0 && i < len(b); l-- {
				b[i] = c
				i++
			}
			if i < len(b) {
				b[i] = d
				i++
			}
		}
	case "prefixedrecords":
		// numbered records that each start with the same periodic string of
		// two low bytes ("$%$%$%00017\n"); the block of records occurs twice
		// and a tail of high bytes follows: a tandem repeat among the sorted
		// suffixes together with long repeated material in text order (what
		// exhausts a rank sorter's budget)
		p0 := byte(0x20 + r.Intn(16))
		p1 := p0 + 1 + byte(r.Intn(4))
		reps := 3 + r.Intn(8)
		tail := []int{0, len(b) / 50, len(b) / 5, len(b) / 3}[r.Intn(4)]
		recLen := 2*reps + 6
		nrec := (len(b) - tail) / (2 * recLen)
		var blk []byte
		for j := 0; j < nrec; j++ {
			for k := 0; k < reps; k++ {
				blk = append(blk, p0, p1)
			}
			blk = append(blk, byte('0'+j/10000%10), byte('0'+j/1000%10), byte('0'+j/100%10), byte('0'+j/10%10), byte('0'+j%10), '\n')
		}
		i := copy(b, blk)
		i += copy(b[i:], blk)
		for ; i < len(b); i++ {
			b[i] = byte(128 + r.Intn(128))
		}
	case "bigrecords":
		// a few records of 8 to 100 KiB in an order with repetitions
		// (X A X X B A ...): matches of tens of KiB, also adjacent repeats
		k := 2 + r.Intn(3)
		recs := make([][]byte, k)
		for i := range recs {
			recs[i] = genInput(r, r.Pick(8<<10, 32<<10, 32<<10+5, 40000, 64<<10, 100_000), r.pickStr("iid256", "copyback256", "iid16"))
		}
		i := 0
		last := 0
		for i < n {
			j := r.Intn(k)
			if r.Chance(0.35) {
				j = last
			}
			last = j
			i += copy(b[i:], recs[j])
		}
	case "copyback256":
		// unique strings (literals over the full alphabet) and exact repeats
		i := 0
		for i < n {
			if i > 8 && r.Chance(0.5) {
				l := 3 + r.Intn(24)
				o := 1 + r.Intn(i)
				for ; l > 0 && i < n; l-- {
					b[i] = b[i-o]
					i++
				}
			} else {
				l := 1 + r.Intn(12)
				for ; l > 0 && i < n; l-- {
					b[i] = byte(r.Intn(256))
					i++
				}
			}
		}
	case "fib":
		a, bb := []byte{base}, []byte{base, base + 1}
		for len(bb) < n {
			a, bb = bb, append(append([]byte(nil), bb...), a...)
		}
		copy(b, bb)
	case "thue":
		for i := range b {
			c := 0
			for x := i; x > 0; x >>= 1 {
				c ^= x & 1
			}
			b[i] = base + byte(c)
		}
	case "debruijn":
		k := 2 + r.Intn(2)
		// simple LFSR-ish sequence over k letters
		x := uint32(1 + r.Intn(1000))
		for i := range b {
			x = x*1103515245 + 12345
			b[i] = base + byte((x>>16)%uint32(k))
			if i >= 7 && r.Chance(0.05) {
				b[i] = b[i-7]
			}
		}
	default:
		for i := range b {
			b[i] = byte(r.Intn(256))
		}
	}
	return b
}

// ---------------------------------------------------------------------------
// Parser configuration swarm

var parserTypes = []string{"HP", "BHP", "DHP", "BDHP", "BUP", "GSAP", "OSAP"}

type geom struct {
	class string
	bsLo  int
	bsHi  int
}

var geoms = map[string]geom{
	"tiny":   {"tiny", 1, 16},
	"small":  {"small", 17, 300},
	"medium": {"medium", 301, 5000},
	"large":  {"large", 33 << 10, 100 << 10},
	"huge":   {"huge", 256 << 10, 2 << 20},
}

// relTo picks a value relative to ref: <, =, >, 1 or "0 => default".
func relTo(r *RNG, ref int, allowZero bool) int {
	switch r.Intn(7) {
	case 0:
		return 1
	case 1:
		if ref > 1 {
			return 1 + r.Intn(ref-1)
		}
		return 1
	case 2:
		return ref
	case 3:
		return ref + 1 + r.Intn(ref+3)
	case 4:
		if allowZero {
			return 0
		}
		return ref
	case 5:
		if ref > 2 {
			return ref - 1
		}
		return ref
	default:
		return 1 + r.Intn(2*ref+2)
	}
}

func genParserSpec(r *RNG, typ, class string) ParserSpec {
	g := geoms[class]
	p := ParserSpec{Type: typ}
	p.BufferSize = r.Range(g.bsLo, g.bsHi)
	if r.Chance(0.1) && class != "large" {
		// interesting exact sizes
		p.BufferSize = r.Pick(1, 2, 7, 8, 9, 15, 16, 17, 63, 64, 65, 127, 128, 129, 255, 256, 257)
		if class == "tiny" && p.BufferSize > 16 {
			p.BufferSize = r.Range(1, 16)
		}
	}
	if r.Chance(0.02) && class != "tiny" {
		// all-default geometry (8 MiB buffer/window, 32 KiB shrink, 128 KiB
		// blocks); inputs stay small, so the buffer never fills, but the
		// default code paths (table sizes, margins, grow) are exercised
		p.BufferSize = 0
	}
	bs := p.BufferSize
	if bs == 0 {
		bs = 4096 // for the relative choices below only
	}
	// ShrinkSize < BufferSize (0 => default BS/2)
	switch r.Intn(6) {
	case 0:
		p.ShrinkSize = 0
	case 1:
		p.ShrinkSize = 1
	case 2:
		p.ShrinkSize = bs - 1
	default:
		p.ShrinkSize = r.Intn(bs)
	}
	if p.ShrinkSize >= bs {
		p.ShrinkSize = bs - 1
	}
	if p.ShrinkSize < 0 {
		p.ShrinkSize = 0
	}
	p.WindowSize = relTo(r, bs, true)
	p.BlockSize = relTo(r, bs, true)
	if p.BufferSize == 0 {
		p.ShrinkSize = 0
		if r.Chance(0.5) {
			p.WindowSize = 0
		}
	}
	if r.Chance(0.25) {
		p.BlockSize = 1 + r.Intn(bs/2+2)
	}
	hb := func() int {
		if r.Chance(0.05) {
			return 0 // default
		}
		if r.Chance(0.1) {
			return r.Range(7, 12)
		}
		return r.Range(1, 6)
	}
	switch typ {
	case "HP", "BHP":
		p.InputLen = r.Range(2, 8)
		if r.Chance(0.1) {
			p.InputLen = 0
		}
		p.HashBits = hb()
	case "BUP":
		p.InputLen = r.Range(2, 8)
		if r.Chance(0.1) {
			p.InputLen = 0
		}
		p.HashBits = hb()
		if p.HashBits == 0 || p.HashBits > 8 {
			p.HashBits = r.Range(1, 6)
		}
		p.BucketSize = r.Pick(1, 2, 3, 4, 10, 128, 0)
	case "DHP", "BDHP":
		p.InputLen1 = r.Range(2, 7)
		p.InputLen2 = r.Range(p.InputLen1+1, 8)
		if r.Chance(0.1) {
			p.InputLen1, p.InputLen2 = 0, 0
		}
		p.HashBits1 = hb()
		p.HashBits2 = hb()
	case "GSAP":
		p.MinMatchLen = r.Pick(0, 2, 2, 3, 3, 4, 5, 8)
		mm := p.MinMatchLen
		if mm == 0 {
			mm = 3
		}
		if p.WindowSize != 0 && p.WindowSize < mm {
			p.WindowSize = mm + r.Intn(3)
		}
	case "OSAP":
		p.MinMatchLen = r.Pick(0, 2, 2, 3, 3, 4, 5)
		if r.Chance(0.15) {
			// beyond the length classes of the cost function (2..9, 10..17, 18..)
			p.MinMatchLen = r.Pick(8, 9, 10, 11, 17, 18, 19, 30)
		}
		mm := p.MinMatchLen
		if mm == 0 {
			mm = 3
		}
		switch r.Intn(5) {
		case 0:
			p.MaxMatchLen = mm
		case 1:
			p.MaxMatchLen = mm + 1 + r.Intn(3)
		case 2:
			p.MaxMatchLen = 8 + r.Intn(10)
		case 3:
			p.MaxMatchLen = 0
		default:
			p.MaxMatchLen = mm + r.Intn(40)
		}
		if p.MaxMatchLen != 0 && p.MaxMatchLen < mm {
			p.MaxMatchLen = mm
		}
		if r.Chance(0.5) {
			p.Cost = "XZCost"
		}
	}
	return p
}

// defaults returns the buffer configuration after defaults (used by
// generators to place operations sensibly; not an oracle).
func (p *ParserSpec) defaults() lz.BufConfig {
	cfg, err := p.Config()
	if err != nil {
		return lz.BufConfig{}
	}
	c := cfg.Clone()
	c.SetDefaults()
	return c.BufConfig()
}

// ---------------------------------------------------------------------------
// Reader plans

type planOpts struct {
	chunk  bool // cuts, bytewise, zero reads, eof-with-data
	faults bool // err events
	dead   bool // allow a dead reader
	first  int  // stratified position of the first fault (-1: random)
}

func genRPlan(r *RNG, n int, o planOpts) *RPlan {
	if !o.chunk && !o.faults {
		return nil
	}
	p := &RPlan{}
	if o.chunk {
		if r.Chance(0.5) {
			k := r.Intn(5)
			for i := 0; i < k; i++ {
				p.Cuts = append(p.Cuts, r.Intn(n+1))
			}
		}
		if r.Chance(0.3) {
			a := r.Intn(n + 1)
			p.ByteFrom, p.ByteTo = a, a+1+r.Intn(20)
		}
		if r.Chance(0.1) {
			p.ByteFrom, p.ByteTo = 0, n+1
		}
		if r.Chance(0.4) {
			p.EOFWithData = true
		}
		if r.Chance(0.3) {
			p.MaxChunk = 1 + r.Intn(40)
		}
		if r.Chance(0.3) {
			k := 1 + r.Intn(2)
			if r.Chance(0.3) {
				// many scattered empty reads within one fill (never more than
				// two in a row), together with small chunks
				k = 16 + r.Intn(40)
				if p.MaxChunk == 0 {
					p.MaxChunk = 1 + r.Intn(16)
				}
			}
			for i := 0; i < k; i++ {
				p.Events = append(p.Events, REvent{At: r.Intn(n + 1), Kind: "zero", Rep: 1 + r.Intn(2), ID: 100 + i})
			}
		}
	}
	if o.faults {
		k := 1
		if r.Chance(0.4) {
			k += r.Intn(3)
		}
		for i := 0; i < k; i++ {
			at := r.Intn(n + 1)
			if i == 0 && o.first >= 0 {
				at = o.first
				if at > n {
					at = n
				}
			}
			e := REvent{At: at, ID: i + 1}
			switch r.Intn(4) {
			case 0:
				e.Kind = "err"
				e.Keep = 0
			case 1:
				e.Kind = "err"
				e.Keep = 1 + r.Intn(12)
			case 2:
				e.Kind = "sticky"
				e.Rep = 1 + r.Intn(3)
			default:
				e.Kind = "err"
				e.Keep = r.Intn(3)
			}
			p.Events = append(p.Events, e)
		}
		if o.dead && r.Chance(0.15) {
			p.Events = append(p.Events, REvent{At: r.Intn(n + 1), Kind: "sticky", Rep: -1, ID: 99})
		}
		if r.Chance(0.1) {
			p.EOFEarly = 1 + r.Intn(n+1)
		}
	}
	// at most one zero event per position (never more than two (0,nil) in a row)
	seen := map[int]bool{}
	ev := p.Events[:0]
	for _, e := range p.Events {
		if e.Kind == "zero" {
			if seen[e.At] {
				continue
			}
			seen[e.At] = true
		}
		ev = append(ev, e)
	}
	p.Events = ev
	return p
}

// ---------------------------------------------------------------------------
// Parser operation traces (direct mode)

type pgen struct {
	wParse, wNil, wWrite, wReadFrom, wShrink, wReset, wResetData, wReadAt int
	nOps                                                                  int
	flagsNTL                                                              float64 // probability of NoTrailingLiterals
	reuse                                                                 float64
	plan                                                                  planOpts
	aliasReset                                                            bool
	oversizeReset                                                         bool
	overfill                                                              float64 // probability that a feed exceeds the free space
	trickle                                                               float64 // probability that a feed is only 1..3 bytes
	flagBits                                                              float64 // probability that a Parse gets further flag bits (2, 4, 0x100) besides bit 0 (C01 only: "whichever flags were passed")
}

func defaultPGen() pgen {
	return pgen{wParse: 10, wNil: 0, wWrite: 4, wReadFrom: 3, wShrink: 3, wReset: 1, wResetData: 1, wReadAt: 1,
		nOps: 60, flagsNTL: 0.35, reuse: 0.7, overfill: 0.35}
}

func genParserOps(r *RNG, spec *ParserSpec, g pgen, inputLen int) []Op {
	bc := spec.defaults()
	bs, bl, ss := bc.BufferSize, bc.BlockSize, bc.ShrinkSize
	if bs <= 0 {
		bs = 16
	}
	var ops []Op
	held, unparsed, parsed := 0, 0, 0 // approximate model for placement only
	remaining := inputLen
	feedSize := func() int {
		free := bs - held
		if g.trickle > 0 && r.Chance(g.trickle) {
			return 1 + r.Intn(3)
		}
		var n int
		switch r.Intn(6) {
		case 0:
			n = 1 + r.Intn(8)
		case 1:
			n = free
		case 2:
			n = free + 1 + r.Intn(10)
		case 3:
			if free > 1 {
				n = free - 1
			} else {
				n = 1
			}
		default:
			n = 1 + r.Intn(bs+bs/2+1)
		}
		if !r.Chance(g.overfill) && n > free && free > 0 {
			n = 1 + r.Intn(free)
		}
		if n < 0 {
			n = 0
		}
		return n
	}
	for len(ops) < g.nOps {
		w := []int{g.wParse, g.wNil, g.wWrite, g.wReadFrom, g.wShrink, g.wReset, g.wResetData, g.wReadAt}
		if unparsed == 0 {
			w[0] = (w[0] + 5) / 6
			w[1] = (w[1] + 5) / 6
			w[2] *= 4
			w[3] *= 4
		}
		if held >= bs {
			w[2] = (w[2] + 3) / 4
			w[3] = (w[3] + 3) / 4
			if parsed > ss {
				w[4] *= 6
			}
		}
		if parsed <= ss {
			w[4] = (w[4] + 3) / 4
		}
		if remaining <= 0 {
			w[2], w[3], w[6] = 0, 0, 0
			if unparsed == 0 && g.wReadAt == 0 {
				break
			}
		}
		switch r.Weighted(w) {
		case 0, 1:
			op := Op{K: "Parse"}
			if r.Chance(g.flagsNTL) {
				op.F = lz.NoTrailingLiterals
			}
			if r.Chance(g.reuse) {
				op.Re = true
			}
			if g.flagBits > 0 && r.Chance(g.flagBits) {
				op.F |= r.Pick(2, 4, 0x100, 0x7ffffffe)
			}
			ops = append(ops, op)
			adv := bl
			if unparsed < adv {
				adv = unparsed
			}
			unparsed -= adv
			parsed += adv
		case 2:
			n := feedSize()
			ops = append(ops, Op{K: "Write", N: n})
			t := n
			if t > bs-held {
				t = bs - held
			}
			if t > remaining {
				t = remaining
			}
			held += t
			unparsed += t
			remaining -= t
		case 3:
			n := feedSize()
			if r.Chance(0.3) {
				n = remaining // reader with everything that is left
			}
			op := Op{K: "ReadFrom", N: n}
			po := g.plan
			po.first = -1
			if r.Chance(0.6) {
				op.Plan = genRPlan(r, min(n, remaining), po)
			}
			ops = append(ops, op)
			t := n
			if t > bs-held {
				t = bs - held
			}
			if t > remaining {
				t = remaining
			}
			held += t
			unparsed += t
			remaining -= t
		case 4:
			ops = append(ops, Op{K: "Shrink"})
			if parsed > ss {
				d := parsed - ss
				held -= d
				parsed = ss
			}
		case 5:
			ops = append(ops, Op{K: "Reset"})
			held, unparsed, parsed = 0, 0, 0
		case 6:
			n := r.Intn(bs + 1)
			if r.Chance(0.2) {
				n = bs
			}
			if r.Chance(0.25) {
				// within a few bytes of what the buffer holds now, i.e. close to
				// the capacity it has grown to (reuse of the own array with or
				// without the read margin)
				n = held + r.Range(-8, 8)
				if n < 0 {
					n = 0
				}
			}
			if g.oversizeReset && r.Chance(0.1) {
				n = bs + 1 + r.Intn(3)
			}
			x := r.Pick(1, 1, 2, 4)
			if g.aliasReset && r.Chance(0.5) {
				x = 3
			}
			if r.Chance(0.1) {
				x = r.Pick(5, 6, 6)
			}
			ops = append(ops, Op{K: "Reset", N: n, X: x})
			if n <= bs {
				if n > remaining {
					n = remaining
				}
				held, unparsed, parsed = n, n, 0
				remaining -= n
			}
		case 7:
			ops = append(ops, genReadAtOp(r, bs))
		}
	}
	// replace Parse by ParseNil according to wNil share
	if g.wNil > 0 {
		for i := range ops {
			if ops[i].K == "Parse" && r.Intn(g.wParse+g.wNil) < g.wNil {
				ops[i].K = "ParseNil"
				ops[i].Re = false
			}
		}
	}
	return ops
}

// genResetRecords: a caller that hands over one record after the other with
// Reset(data) and parses each to the end (no Write in between, so the buffer
// keeps whatever capacity Reset gave it). Record lengths follow a random walk
// with small steps (consecutive lengths within a few bytes of each other, the
// read margin of 7 bytes being the interesting distance), capacities vary
// between tight, +3, +7 and large.
func genResetRecords(r *RNG, spec *ParserSpec, inputLen int) []Op {
	bc := spec.defaults()
	bs, bl := bc.BufferSize, maxInt(1, bc.BlockSize)
	if bs <= 0 {
		bs = 16
	}
	var ops []Op
	n := 1 + r.Intn(minInt(bs, 300))
	used := 0
	for used+n <= inputLen && len(ops) < 120 {
		x := r.Pick(1, 1, 1, 4, 2, 3, 6, 6)
		if r.Chance(0.04) {
			x = 5 // empty, non-nil
		}
		ops = append(ops, Op{K: "Reset", N: n, X: x})
		used += n
		for i := minInt(n/bl+1, 6); i > 0; i-- {
			op := Op{K: "Parse", Re: r.Chance(0.7)}
			if r.Chance(0.2) {
				op.F = lz.NoTrailingLiterals
			}
			ops = append(ops, op)
		}
		if r.Chance(0.1) {
			ops = append(ops, Op{K: "Shrink"})
		}
		if r.Chance(0.15) {
			ops = append(ops, genReadAtOp(r, bs))
		}
		if r.Chance(0.7) {
			n += r.Range(-9, 9)
		} else {
			n = 1 + r.Intn(minInt(bs, 300))
		}
		if n < 1 {
			n = 1
		}
		if n > bs {
			n = bs
		}
	}
	return ops
}

func genReadAtOp(r *RNG, bs int) Op {
	op := Op{K: r.pickStr("ReadAt", "ReadAt", "ByteAt", "ByteAt", "PeekAt")}
	op.Base = r.pickStr("off", "w", "end", "end", "off")
	switch r.Intn(6) {
	case 0:
		op.X = -1
	case 1:
		op.X = 0
	case 2:
		op.X = 1
	case 3:
		op.X = -r.Intn(bs + 2)
	case 4:
		op.X = r.Intn(bs + 2)
	default:
		op.X = r.Range(-3, 3)
	}
	if r.Chance(0.08) {
		// offsets a multiple of 2^32 (or 2^31, 2^16) away from a valid one, and
		// the extremes: index arithmetic in a narrower type must not alias them
		// onto retained bytes
		op.X = r.Range(-2, 2) + r.Pick(1<<16, 1<<31, 1<<32, -(1<<32), 2<<32, 1<<40, -(1<<40), 1<<62, -(1<<62))
	}
	op.N = r.Pick(0, 1, 2, 3, 8, bs/2, bs, bs+1)
	if op.K == "PeekAt" && r.Chance(0.2) {
		// PeekAt takes a length, not a slice: lengths near the integer limits
		op.N = r.Pick(1<<31, 1<<32, 1<<40, 1<<62, math.MaxInt64-3, math.MaxInt64-1, math.MaxInt64)
	}
	return op
}

func (r *RNG) pickStr(xs ...string) string { return xs[r.Intn(len(xs))] }

func min(a, b int) int {
	if a < b {
		return a
	}
	return b
}

func pickClass(r *RNG, tier string, allowLarge bool) string {
	w := []int{40, 45, 14, 1}
	if tier == "thorough" {
		w = []int{35, 40, 22, 3}
	}
	if !allowLarge {
		w[3] = 0
	}
	return []string{"tiny", "small", "medium", "large"}[r.Weighted(w)]
}

func inputLenFor(r *RNG, bs int, class string) int {
	if bs > 1<<20 {
		return r.Intn(6000) // default geometry: never filled
	}
	mult := []int{0, 1, 1, 2, 3, 4, 6}[r.Intn(7)]
	n := bs*mult + r.Intn(bs+1)
	if class == "medium" && n > 12000 {
		n = 12000
	}
	if class == "large" && n > 260<<10 {
		n = 260 << 10
	}
	if r.Chance(0.05) {
		n = 0
	}
	return n
}

func describe(format string, a ...interface{}) string { return fmt.Sprintf(format, a...) }
