package main

import (
	"bytes"
	"fmt"
	"io"

	"github.com/ulikunitz/lz"
)

// pipesim: source -> SimReader -> Wrap(parser) -> block hand-over -> Decoder ->
// SimWriter -> sink. Used for C07: whatever the parsers emit for window W is
// accepted by a Decoder with WindowSize W, and the sink equals the source.
//
// Attribution: a parser that panics, hangs, or emits a block that is not
// well-formed in the sense of C02 / does not expand to the source is not C07's
// business (C16/C02/C01 report it); the run is aborted.
func runPipeTrace(t *Trace, want string, clk *taskClock) (res *Result) {
	res = newResult()
	if clk == nil {
		clk = soloClock()
	}
	dx := &dexec{t: t, want: want, res: res, spec: *t.D, clk: clk}
	dx.spec.Target = "decoder"
	px := &pexec{t: t, want: want, res: res, spec: *t.P, clk: clk}
	defer func() {
		res.Ticks = clk.ticks
		if r := recover(); r != nil {
			if _, ok := r.(stopRun); ok {
				return
			}
			panic(r)
		}
	}()
	writeFed := t.P.Target == "write"
	px.spec.Target = "wrap"
	if writeFed {
		// the caller copies the stream into the parser itself, through one
		// chunk buffer that it reuses, and parses whatever is buffered
		px.spec.Target = "direct"
		dx.probe("write_fed")
	}
	px.setup()
	dx.setup()
	if t.D.WindowSize == 0 && t.P.WindowSize == 0 {
		// both sides left the window to its default: the pairing the module's
		// own defaults promise; the model judges well-formedness by the
		// parser's window, not by what the decoder made of its configuration
		dx.ws = px.bc.WindowSize
	} else if px.bc.WindowSize != dx.ws {
		dx.abort("trace pairs different window sizes")
	}
	if px.bc.BlockSize > px.bc.WindowSize {
		dx.probe("bl_gt_ws")
	}
	if t.D.BufferSize == 0 {
		dx.probe("default_buffer")
	}
	if dx.bs < 2*dx.ws {
		dx.probe("bs_lt_2ws")
	}
	var blk lz.Block
	var src []byte
	maxIter := len(t.Input) + 16
	pending := t.Input // write-fed mode: bytes not yet written
	unparsed, parsesLeft := 0, 0
	var chunk []byte
	for i := 0; i < maxIter; i++ {
		flags := 0
		var op Op
		if len(t.Ops) > 0 {
			op = t.Ops[i%len(t.Ops)]
			flags = op.F
		}
		dx.step = i
		px.step = i
		var n int
		var err error
		if writeFed {
			if len(pending) > 0 && (unparsed == 0 || parsesLeft == 0) {
				c := op.N
				if c < 1 {
					c = 1
				}
				if c > len(pending) {
					c = len(pending)
				}
				if cap(chunk) < c+8 {
					chunk = make([]byte, 0, c+8)
				}
				chunk = append(chunk[:0], pending[:c]...)
				w := 0
				pn, hang := px.call(px.budget(c), func() {
					w, _ = px.parser.Write(chunk)
					if w < c {
						px.parser.Shrink()
						w2, _ := px.parser.Write(chunk[w:])
						w += w2
					}
				})
				if pn != "" {
					px.libPanic("Write", pn, hang, "C16")
				}
				if w < 0 || w > c {
					dx.abort("Write returned impossible n")
				}
				for j := range chunk {
					chunk[j] ^= 0x5a
				}
				src = append(src, pending[:w]...)
				pending = pending[w:]
				unparsed += w
				parsesLeft = op.X
				if parsesLeft <= 0 {
					parsesLeft = 1 << 30
				}
			}
			if unparsed == 0 {
				if len(pending) == 0 {
					break
				}
				dx.abort("parser takes no data although everything is parsed")
			}
			parsesLeft--
			pn, hang := px.call(px.budget(0), func() { n, err = px.parser.Parse(&blk, flags) })
			if pn != "" {
				px.libPanic("Parse", pn, hang, "C16")
			}
			unparsed -= n
		} else {
			h0 := px.rd.HandedOut()
			pn, hang := px.call(px.budget(0), func() { n, err = px.wp.Parse(&blk, flags) })
			if pn != "" {
				px.libPanic("WParse", pn, hang, "C16")
			}
			src = append(src, px.rd.data[h0:px.rd.HandedOut()]...)
			if err == io.EOF {
				break
			}
		}
		if err != nil || n <= 0 {
			dx.abort(fmt.Sprintf("parser returned n=%d err=%v", n, err))
		}
		// the block must be well-formed for window W (else not C07's case)
		pos := len(dx.ref)
		lits := len(blk.Literals)
		for _, s := range blk.Sequences {
			if int(s.LitLen) > lits {
				// C02 names the parser defect; C07's "everything a parser of
				// this module emits with WindowSize W is accepted" fails with it
				dx.fail("C07", "parser_stream_malformed", "", "the parser emitted a sequence with LitLen %d and only %d literals left: no Decoder accepts it", s.LitLen, lits)
				dx.abort("parser block not well-formed (LitLen)")
			}
			lits -= int(s.LitLen)
			pos += int(s.LitLen)
			if s.Offset < 1 || int(s.Offset) > dx.ws || int(s.Offset) > pos {
				dx.fail("C07", "parser_stream_malformed", "", "the parser emitted Offset %d at stream position %d with WindowSize %d: a Decoder with the same window refuses it", s.Offset, pos, dx.ws)
				dx.abort("parser block not well-formed (Offset)")
			}
			pos += int(s.MatchLen)
			if int(s.LitLen)+int(s.MatchLen) > dx.ws {
				dx.probe("seq_gt_ws")
			}
		}
		if len(blk.Sequences) > 0 {
			dx.probe("block_with_seq")
		}
		ob := dx.writeBlock(cloneBlock(&blk), -1, "", false)
		res.Obs = append(res.Obs, fmt.Sprintf("Parse f=%d n=%d %s | %s", flags, n, seqString(&blk), ob))
		res.ObsTicks = append(res.ObsTicks, clk.ticks)
		// the block is the caller's; it is reused for the next Parse
		for j := range blk.Literals {
			blk.Literals[j] ^= 0x5a
		}
		dx.invariants()
		if dx.refused {
			// the decoder no longer holds the stream
			res.OpsDone = i + 1
			return res
		}
		if len(dx.handed) > 0 {
			dx.probe("decoder_drained")
		}
	}
	res.OpsDone = len(res.Obs)
	dx.step = len(res.Obs)
	if !bytes.Equal(dx.ref, src) {
		// every block was well-formed and accepted, yet the stream does not
		// stand for the source: C01 names the parser defect, and C07's "has
		// produced the original bytes" fails with it
		dx.fail("C07", "sink_differs", "parser_stream_differs", "the accepted well-formed block stream expands to %d bytes, the source has %d (first difference at %d)", len(dx.ref), len(src), firstDiff(dx.ref, src))
		dx.abort("parser blocks do not expand to the source")
	}
	dx.final()
	if !bytes.Equal(dx.wr.sink, src) {
		dx.fail("C07", "sink_differs", "", "after Flush the sink has %d bytes, the source %d (first difference at %d)", len(dx.wr.sink), len(src), firstDiff(dx.wr.sink, src))
	}
	return res
}
