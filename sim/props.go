package main

import (
	"fmt"
	"os"
	"sort"

	"github.com/ulikunitz/lz"
)

// Prop binds a property id to its generator, executor, non-triviality rule and
// must-fire probes.
type Prop struct {
	ID       string
	Gen      func(r *RNG, tier string, run int) *Trace
	Exec     func(t *Trace) *Result
	NonTriv  func(res *Result) bool
	MustFire []string
	Rule     string
	Quick    int // number of runs in the quick tier
	Thorough int
	Real     []string
	Stub     []string
}

func pr(res *Result, names ...string) bool {
	for _, n := range names {
		if res.Probes[n] > 0 {
			return true
		}
	}
	return false
}

var props = map[string]*Prop{}

func register(p *Prop) { props[p.ID] = p }

func propIDs() []string {
	var ids []string
	for id := range props {
		ids = append(ids, id)
	}
	sort.Strings(ids)
	return ids
}

// genParserTrace is the common parser-world generator.
type ptOpts struct {
	types      []string
	pg         pgen
	wrapShare  float64 // share of runs in Wrap mode
	bufShare   float64 // share of runs on a bare ParserBuffer
	families   []string
	allowLarge bool
	saLarge    bool // GSAP/OSAP may use the large geometry (linear oracles only)
	tweak      func(r *RNG, p *ParserSpec)
	classW     []int
}

func genSorterStress(r *RNG) *Trace {
	if r.Chance(0.008) {
		// byte runs of more than 64 KiB, three of them of different lengths,
		// behind the same context (a sorter that stops comparing somewhere)
		var in []byte
		c, d := byte(r.Intn(256)), byte(r.Intn(256))
		for i := 0; i < 3; i++ {
			for k := r.Range(65537, 72000); k > 0; k-- {
				in = append(in, c)
			}
			in = append(in, d)
		}
		for k := r.Range(100, 72000); k > 0; k-- {
			in = append(in, c+1)
		}
		spec := ParserSpec{Type: "OSAP", BufferSize: len(in) + r.Intn(64), BlockSize: r.Pick(0, 1<<16)}
		spec.WindowSize = spec.BufferSize
		t := &Trace{World: "parser", P: &spec, Input: in}
		t.Note = "sorter-stress long runs"
		t.Ops = append(t.Ops, Op{K: r.pickStr("Write", "Reset"), N: len(in)})
		for i := len(in)/(1<<16) + 3; i > 0; i-- {
			t.Ops = append(t.Ops, Op{K: "Parse", Re: true})
		}
		return t
	}
	typ := "OSAP"
	if r.Chance(0.3) {
		typ = "GSAP"
	}
	n := r.Range(120, 1500)
	fam := r.pickStr("powers", "powers", "listtwice", "listtwice", "nested", "tandem", "unevenruns", "prefixedrecords")
	if fam == "unevenruns" {
		n = r.Range(600, 4000)
	}
	if fam == "prefixedrecords" {
		n = r.Range(2000, 12000)
		if r.Chance(0.12) {
			n = r.Range(30000, 80000) // where a wrong order shows as a wrong expansion rather than a panic
			typ = "OSAP"
		}
	}
	spec := ParserSpec{Type: typ, BufferSize: n + r.Intn(64), BlockSize: r.Pick(0, 1<<16, n, n/2+1, 64)}
	spec.WindowSize = spec.BufferSize + r.Intn(8)
	spec.ShrinkSize = r.Intn(spec.BufferSize)
	spec.MinMatchLen = r.Pick(0, 2, 3, 4)
	if typ == "OSAP" {
		spec.MaxMatchLen = r.Pick(0, 0, 273, 18, 64)
		if mm := spec.MinMatchLen; spec.MaxMatchLen != 0 && spec.MaxMatchLen < maxInt(mm, 3) {
			spec.MaxMatchLen = maxInt(mm, 3)
		}
	}
	t := &Trace{World: "parser", P: &spec, Input: genInput(r, n, fam)}
	t.Note = fmt.Sprintf("sorter-stress family=%s", fam)
	t.Ops = append(t.Ops, Op{K: "Write", N: n})
	bl := spec.BlockSize
	if bl == 0 {
		bl = 128 << 10
	}
	for i := n/bl + 2; i > 0; i-- {
		t.Ops = append(t.Ops, Op{K: "Parse", Re: true})
	}
	return t
}

// genHaulTrace is the "volume" stratum: either a long haul (a small buffer
// refilled dozens to thousands of times, absolute offsets passing 64 KiB and
// 1 MiB) or a wide geometry (buffers and windows of 256 KiB to 2 MiB, match
// offsets beyond 64 KiB and 1 MiB, hash tables of 2^16 and more entries). Hash
// parsers mostly; the suffix-array parsers take part with at most 200 KiB.
// mode "wrap" streams through a WrappedParser; mode "direct" cycles
// Write/Parse.../Shrink with buffer probes in between.
func genHaulTrace(r *RNG, mode string, probes bool) *Trace {
	typ := parserTypes[r.Intn(len(parserTypes))]
	sa := typ == "GSAP" || typ == "OSAP"
	wide := r.Chance(0.4) && !sa
	var spec ParserSpec
	var n int
	if wide {
		spec = genParserSpec(r, typ, "huge")
		if spec.BufferSize < 256<<10 {
			spec.BufferSize = r.Range(256<<10, 2<<20) // not the "interesting small sizes" here
		}
		spec.WindowSize = r.Pick(0, spec.BufferSize, spec.BufferSize/2, 1<<16, 1<<16+1, 1<<20, 1<<20+1)
		spec.BlockSize = r.Pick(0, 1<<16, 1<<17, spec.BufferSize/3+1)
		spec.HashBits, spec.HashBits1, spec.HashBits2 = r.Pick(0, 14, 16, 17, 20), r.Pick(0, 12, 16), r.Pick(0, 14, 18)
		if spec.ShrinkSize > spec.BufferSize/2 {
			spec.ShrinkSize = spec.BufferSize / r.Pick(2, 3, 8) // a refill must be worth it at this size
		}
		if typ == "BUP" {
			// at most 2^22 bucket entries (38 MiB): 16 workers run side by side
			for bsz := maxInt(spec.BucketSize, 1); spec.HashBits > 8 && (1<<uint(spec.HashBits))*bsz > 1<<22; {
				spec.HashBits--
			}
			if spec.HashBits == 0 {
				spec.HashBits = r.Pick(10, 12, 14)
				if spec.BucketSize > 16 || spec.BucketSize == 0 {
					spec.BucketSize = r.Pick(4, 10, 16)
				}
			}
		}
		n = spec.BufferSize + r.Intn(2*spec.BufferSize)
	} else {
		spec = genParserSpec(r, typ, []string{"small", "medium"}[r.Intn(2)])
		if spec.BufferSize == 0 || spec.BufferSize < 32 {
			spec.BufferSize = 64 + r.Intn(4000)
		}
		if spec.ShrinkSize >= spec.BufferSize {
			spec.ShrinkSize = spec.BufferSize / 2
		}
		if spec.ShrinkSize > spec.BufferSize/2 {
			spec.ShrinkSize = spec.BufferSize / 2
		}
		// every Shrink re-bases the whole hash table: keep the tables small
		// here (the wide mode has the large ones)
		for _, hb := range []*int{&spec.HashBits, &spec.HashBits1, &spec.HashBits2} {
			if *hb == 0 || *hb > 10 {
				*hb = r.Range(1, 10)
			}
		}
		if spec.BucketSize == 0 || spec.BucketSize > 10 {
			spec.BucketSize = r.Pick(1, 2, 4, 10)
		}
		spec.BlockSize = maxInt(8, spec.BufferSize/r.Pick(1, 2, 4))
		n = r.Pick(1<<16, 1<<17, 1<<18, 1<<20) + r.Range(-300, 5000)
		if lim := 3000 * (spec.BufferSize - spec.ShrinkSize); n > lim {
			n = lim // at most 3000 refills
		}
		if sa {
			n = r.Pick(1<<16, 1<<17) + r.Range(-300, 5000)
			if spec.BufferSize < 512 {
				spec.BufferSize += 512 // every fill pays a fixed 256x256 bucket pass
			}
		}
	}
	oneShot := false
	if wide && mode == "wrap" && r.Chance(0.3) {
		// stream lengths within 8 bytes of the capacities the buffer grows
		// through when it is filled by large reads (2t+7 with t = length + one
		// 32 KiB chunk: 65543, 196615, 458759), delivered in as few reads as the
		// reader allows: the 7-byte read margin at the end of an exactly filled
		// allocation
		n = r.Pick(65536, 196608, 458752) + r.Intn(9)
		if spec.BufferSize < n+16 {
			spec.BufferSize = n + r.Range(16, 1<<16)
		}
		oneShot = true
	}
	bc := spec.defaults()
	fam := r.pickStr("copyback", "copyback", "copyback256", "runs", "periodic", "iid4", "zeroheavy", "tandem")
	if wide && r.Chance(0.4) {
		fam = "bigrecords"
	}
	t := &Trace{World: "parser", P: &spec, Input: genInput(r, n, fam)}
	t.Note = fmt.Sprintf("volume wide=%v family=%s n=%d", wide, fam, n)
	bl := maxInt(1, bc.BlockSize)
	if mode == "wrap" {
		spec.Target = "wrap"
		if oneShot {
			spec.Plan = &RPlan{EOFWithData: r.Chance(0.6)}
		} else if r.Chance(0.5) {
			spec.Plan = &RPlan{MaxChunk: 1 + r.Intn(1<<15), EOFWithData: r.Chance(0.5)}
		}
		for i := n/minInt(bl, maxInt(1, bc.BufferSize)) + 8; i > 0; i-- {
			op := Op{K: "WParse", Re: r.Chance(0.8)}
			if r.Chance(0.1) {
				op.F = lz.NoTrailingLiterals
			}
			t.Ops = append(t.Ops, op)
		}
		return t
	}
	// direct mode: feed pieces, parse to empty, probe; shrink when the buffer
	// is full (a caller that shrinks only then lets the buffer reallocate while
	// much parsed data is still in front of the parse position) or, in half
	// of the runs, after every piece
	piece := maxInt(1, bc.BufferSize/r.Pick(1, 1, 2, 8, 32))
	eager := r.Chance(0.5)
	if sa {
		piece = bc.BufferSize // every feed costs a suffix sort with a fixed 256x256 pass
		if n > 1<<16+5000 {
			n = 1<<16 + r.Range(-300, 5000)
			t.Input = t.Input[:n]
		}
	}
	fed, held := 0, 0
	for fed < n && len(t.Ops) < 60000 {
		t.Ops = append(t.Ops, Op{K: r.pickStr("Write", "Write", "ReadFrom"), N: piece})
		got := minInt(piece, bc.BufferSize-held)
		held += got
		fed += maxInt(got, 1)
		for i := got/bl + 1; i > 0; i-- {
			op := Op{K: "Parse", Re: true}
			if r.Chance(0.05) {
				op.K = "ParseNil"
				op.Re = false
			}
			t.Ops = append(t.Ops, op)
		}
		if probes && r.Chance(0.5) {
			t.Ops = append(t.Ops, genReadAtOp(r, bc.BufferSize))
		}
		if eager || held >= bc.BufferSize {
			t.Ops = append(t.Ops, Op{K: "Shrink"})
			if held > bc.ShrinkSize {
				held = bc.ShrinkSize
			}
			if probes && r.Chance(0.5) {
				t.Ops = append(t.Ops, genReadAtOp(r, bc.BufferSize))
			}
		}
	}
	return t
}

func minInt(a, b int) int {
	if a < b {
		return a
	}
	return b
}

func genParserTrace(r *RNG, tier string, o ptOpts) *Trace {
	typ := o.types[r.Intn(len(o.types))]
	class := pickClass(r, tier, o.allowLarge)
	if o.classW != nil {
		class = []string{"tiny", "small", "medium", "large"}[r.Weighted(o.classW)]
	}
	saLarge := false
	if (typ == "GSAP" || typ == "OSAP") && class == "large" {
		// the suffix-array parsers get the large geometry (33-100 KiB buffers:
		// the suffix sorter's block merges, >64Ki positions, multi-word position
		// sets) only where the oracle is linear (o.saLarge), and then with
		// inputs of at most 1.5 buffers; everywhere else they stay medium
		if o.saLarge && r.Chance(0.5) {
			saLarge = true
		} else {
			class = "medium"
		}
	}
	spec := genParserSpec(r, typ, class)
	if o.tweak != nil {
		o.tweak(r, &spec)
	}
	bc := spec.defaults()
	fams := o.families
	if fams == nil {
		fams = inputFamilies
	}
	fam := fams[r.Intn(len(fams))]
	if f := os.Getenv("LZSIM_FAMILY"); f != "" {
		fam = f // experiments only (never set by bin/check): force one input family
	}
	n := inputLenFor(r, bc.BufferSize, class)
	if (typ == "GSAP" || typ == "OSAP") && n > 6000 && !saLarge {
		n = 6000
	}
	if saLarge {
		n = bc.BufferSize/2 + r.Intn(bc.BufferSize+1)
	}
	t := &Trace{World: "parser", P: &spec, Input: genInput(r, n, fam)}
	t.Note = fmt.Sprintf("class=%s family=%s", class, fam)
	pg := o.pg
	if class == "medium" || class == "large" {
		pg.nOps = pg.nOps * 2
	}
	if tier == "thorough" {
		pg.nOps = pg.nOps * 3 / 2
	}
	x := r.Float()
	switch {
	case x < o.wrapShare:
		spec.Target = "wrap"
		if r.Chance(0.12) {
			spec.PreUse = 1 + r.Intn(minInt(maxInt(bc.BufferSize, 1), 200))
		}
		po := pg.plan
		po.first = -1
		spec.Plan = genRPlan(r, n, po)
		blocks := n/maxInt(1, bc.BlockSize) + 6
		if blocks > 400 {
			blocks = 400
		}
		for i := 0; i < blocks; i++ {
			op := Op{K: "WParse", Re: r.Chance(pg.reuse)}
			if r.Chance(pg.flagsNTL) {
				op.F = lz.NoTrailingLiterals
			}
			if pg.wNil > 0 && r.Intn(pg.wParse+pg.wNil) < pg.wNil {
				op.K, op.Re = "WParseNil", false
			}
			t.Ops = append(t.Ops, op)
			if r.Chance(0.03) {
				wr := Op{K: "WReset", Plan: genRPlan(r, n, po)}
				if r.Chance(0.7) {
					wr.N = 1 + r.Intn(n+1)
				}
				t.Ops = append(t.Ops, wr)
			}
		}
	case x < o.wrapShare+o.bufShare:
		spec.Target = "buffer"
		pg.wNil = 0
		ops := genParserOps(r, &spec, pg, n)
		for i := range ops {
			if ops[i].K == "Parse" {
				ops[i] = Op{K: "AdvanceW", N: 1 + r.Intn(maxInt(1, bc.BlockSize))}
			}
		}
		t.Ops = ops
	default:
		if o.pg.wResetData > 0 && r.Chance(0.04) {
			t.Ops = genResetRecords(r, &spec, n) // records handed over with Reset only
			t.Note += " reset-records"
		} else {
			t.Ops = genParserOps(r, &spec, pg, n)
		}
	}
	return t
}

func maxInt(a, b int) int {
	if a > b {
		return a
	}
	return b
}

func execParser(id string) func(t *Trace) *Result {
	return func(t *Trace) *Result { return runParserTrace(t, id, nil, 0, 0) }
}

func execDecoder(id string) func(t *Trace) *Result {
	return func(t *Trace) *Result {
		if t.World == "pipe" {
			return runPipeTrace(t, id, nil)
		}
		return runDecoderTrace(t, id, nil)
	}
}

var realParser = []string{"all seven parsers, ParserBuffer, WrappedParser, suffix.Sort/LCP/Segments (instrumented copy of /repo's working tree)"}
var stubParser = []string{"io.Reader (SimReader with fault plan)", "caller memory for Reset(data)", "tick clock (generated yield points)"}
var realDecoder = []string{"DecoderBuffer, Decoder (instrumented copy of /repo's working tree)"}
var stubDecoder = []string{"io.Writer (SimWriter with fault plan)", "tick clock (generated yield points)"}

func init() {
	// ---------------------------------------------------------------- C01
	register(&Prop{ID: "C01",
		Gen: func(r *RNG, tier string, run int) *Trace {
			if tier == "thorough" && run%200003 == 77 {
				t := genC13ManyResets(r, true) // 65536 and more Resets of one instance
				t.Prop, t.ResetAt = "", 0
				return t
			}
			if run%211 == 5 {
				return genSAGrow(r, r.pickStr("GSAP", "GSAP", "OSAP"))
			}
			if run%401 == 7 {
				return genBigWrite(r) // first Write of 1 MiB and more
			}
			if run%53 == 9 {
				return genLongMatch(r, parserTypes) // long match stratum
			}
			pg := defaultPGen()
			pg.plan = planOpts{chunk: true, faults: r.Chance(0.3)}
			pg.flagBits = 0.03
			pg.aliasReset = true
			if r.Chance(0.06) {
				pg.trickle = 0.85
			}
			if run%1597 == 11 {
				return genHaulTrace(r, "wrap", false)
			}
			if run%1597 == 811 {
				return genHaulTrace(r, "direct", false)
			}
			if run%20 == 7 || run%20 == 13 || run%20 == 17 {
				// suffix sorter stress: the optimizing parser emits what the
				// suffix array says without verification, so C01 on OSAP (and the
				// match lengths of GSAP) stand and fall with suffix.Sort/LCP/
				// Segments. One feed of a text built for the sorter's rare paths
				// (tandem repeats, exhausted rank-sort budget), sorted in one go
				// (buffer and window at least as large as the text), then parsed
				// to the end.
				return genSorterStress(r)
			}
			return genParserTrace(r, tier, ptOpts{types: parserTypes, pg: pg, wrapShare: 0.2, allowLarge: true, saLarge: true})
		},
		Exec: execParser("C01"),
		NonTriv: func(res *Result) bool {
			return pr(res, "block_with_seq") && pr(res, "buffer_full", "shrink_discarded", "refill_after_shrink", "wrap_multiple_fills")
		},
		MustFire: []string{"buffer_full", "shrink_discarded", "refill_after_shrink", "match_len>=16", "match_overlapping", "no_trailing_literals_cut", "reset_with_data", "wrap_multiple_fills"},
		Rule:     "seeded traces over all seven parsers (direct and Wrap mode), config/geometry/input-family swarm; non-trivial = at least one sequence emitted and at least one of buffer_full / shrink_discarded / refill_after_shrink / wrap_multiple_fills; distinct = distinct event-log digests",
		Quick:    120000, Thorough: 3600000, Real: realParser, Stub: stubParser})

	// ---------------------------------------------------------------- C02
	register(&Prop{ID: "C02",
		Gen: func(r *RNG, tier string, run int) *Trace {
			if run%53 == 9 {
				return genLongMatch(r, parserTypes) // long match stratum
			}
			if run%1597 == 11 {
				return genHaulTrace(r, "wrap", false) // volume stratum
			}
			if run%1597 == 811 {
				return genHaulTrace(r, "direct", false)
			}
			pg := defaultPGen()
			pg.wNil = 2
			pg.plan = planOpts{chunk: true}
			return genParserTrace(r, tier, ptOpts{types: parserTypes, pg: pg, wrapShare: 0.2, allowLarge: true,
				tweak: func(r *RNG, p *ParserSpec) {
					if r.Chance(0.5) {
						// window smaller than the buffer, streams much longer than the window
						p.WindowSize = r.Pick(1, 1, 2, 3, 1+r.Intn(p.BufferSize))
						if p.Type == "GSAP" {
							mm := p.MinMatchLen
							if mm == 0 {
								mm = 3
							}
							if p.WindowSize < mm {
								p.WindowSize = mm
							}
						}
					}
				}})
		},
		Exec:     execParser("C02"),
		NonTriv:  func(res *Result) bool { return pr(res, "seq_beyond_window") },
		MustFire: []string{"seq_beyond_window", "parse_nil", "shrink_discarded"},
		Rule:     "as C01 plus a stratum with WindowSize < BufferSize / = 1 and Parse(nil) in the history; non-trivial = at least one sequence at an absolute stream position beyond WindowSize",
		Quick:    120000, Thorough: 3600000, Real: realParser, Stub: stubParser})

	// ---------------------------------------------------------------- C03
	register(&Prop{ID: "C03",
		Gen: func(r *RNG, tier string, run int) *Trace {
			if run%53 == 9 {
				return genLongMatch(r, parserTypes) // long match stratum
			}
			if run%1597 == 11 || run%1597 == 811 {
				return genHaulTrace(r, "direct", false) // volume stratum
			}
			pg := defaultPGen()
			pg.flagsNTL = 0.5
			pg.wShrink = 5
			pg.plan = planOpts{chunk: true}
			return genParserTrace(r, tier, ptOpts{types: parserTypes, pg: pg, wrapShare: 0.15, allowLarge: true,
				tweak: func(r *RNG, p *ParserSpec) {
					if r.Chance(0.15) {
						p.BlockSize = 1
					}
				}})
		},
		Exec: execParser("C03"),
		NonTriv: func(res *Result) bool {
			return res.Probes["block_with_seq"]+res.Probes["block_without_seq"] >= 2 && pr(res, "no_trailing_literals_cut")
		},
		MustFire: []string{"empty_buffer_parse", "ntl_with_seq", "ntl_without_seq", "block_size_1", "no_trailing_literals_cut", "shrink_discarded"},
		Rule:     "seeded traces, both flag values on every call, block sizes 1..>buffer; non-trivial = at least two non-empty Parse results including a NoTrailingLiterals block that cut trailing literals",
		Quick:    120000, Thorough: 3600000, Real: realParser, Stub: stubParser})

	// ---------------------------------------------------------------- C14
	register(&Prop{ID: "C14",
		Gen: func(r *RNG, tier string, run int) *Trace {
			if run%53 == 9 {
				// long match stratum with skipped blocks of 64 KiB and more
				t := genLongMatch(r, parserTypes)
				for i := range t.Ops {
					if t.Ops[i].K == "Parse" && r.Chance(0.3) {
						t.Ops[i] = Op{K: "ParseNil"}
					}
				}
				return t
			}
			if run%1597 == 11 {
				return genHaulTrace(r, "direct", false) // volume stratum (5 % of its Parse calls are Parse(nil))
			}
			pg := defaultPGen()
			pg.wNil = 6
			pg.wReset = 1
			pg.wResetData = 0
			pg.wReadAt = 0
			t := genParserTrace(r, tier, ptOpts{types: parserTypes, pg: pg, wrapShare: 0.2})
			if r.Chance(0.3) && t.P.Target != "wrap" {
				// a drain loop of Parse(nil) at the end
				for i := 0; i < 8; i++ {
					t.Ops = append(t.Ops, Op{K: "ParseNil"})
				}
			}
			return t
		},
		Exec:     execParser("C14"),
		NonTriv:  func(res *Result) bool { return pr(res, "parse_nil") && pr(res, "block_with_seq") },
		MustFire: []string{"parse_nil", "nil_drains_to_empty"},
		Rule:     "Parse(nil) mixed with Parse(&blk), Write, Shrink on all seven parsers; non-trivial = at least one Parse(nil) that consumed data and a later block with a sequence",
		Quick:    120000, Thorough: 3600000, Real: realParser, Stub: stubParser})

	// ---------------------------------------------------------------- C15
	register(&Prop{ID: "C15",
		Gen: func(r *RNG, tier string, run int) *Trace {
			if run%401 == 7 {
				return genBigWrite(r) // first Write of 1 MiB and more
			}
			if run%1597 == 11 || run%1597 == 811 {
				return genHaulTrace(r, "direct", true) // volume stratum with buffer probes
			}
			pg := defaultPGen()
			pg.wParse = 5
			pg.wNil = 1
			pg.wWrite, pg.wReadFrom, pg.wShrink, pg.wReset, pg.wResetData, pg.wReadAt = 5, 5, 5, 1, 3, 14
			pg.plan = planOpts{chunk: true, faults: true}
			pg.aliasReset = true
			pg.oversizeReset = true
			pg.overfill = 0.5
			return genParserTrace(r, tier, ptOpts{types: parserTypes, pg: pg, bufShare: 0.35, allowLarge: true,
				tweak: func(r *RNG, p *ParserSpec) {
					switch r.Intn(4) {
					case 0:
						p.ShrinkSize = 1
					case 1:
						p.ShrinkSize = p.BufferSize - 1
					}
					if p.ShrinkSize < 0 {
						p.ShrinkSize = 0
					}
				}})
		},
		Exec: execParser("C15"),
		NonTriv: func(res *Result) bool {
			return pr(res, "shrink_discarded") && pr(res, "probe_end", "probe_off-1", "probe_end+1")
		},
		MustFire: []string{"probe_off-1", "probe_off", "probe_end-1", "probe_end", "probe_end+1", "reset_with_aliased_cap", "readfrom_exact_fit", "readfrom_reader_error", "reset_oversize", "buffer_full", "shrink_discarded"},
		Rule:     "operation mix dominated by Write/ReadFrom/Shrink/Reset(data)/ReadAt/PeekAt/ByteAt on every parser and on a bare ParserBuffer, reader faults, aliasing Reset; non-trivial = at least one Shrink>0 and a probe at a boundary offset",
		Quick:    200000, Thorough: 6000000, Real: realParser, Stub: stubParser})

	// ---------------------------------------------------------------- C19
	register(&Prop{ID: "C19",
		Gen: func(r *RNG, tier string, run int) *Trace {
			if run%53 == 9 {
				return genLongMatch(r, []string{"HP", "BHP", "DHP", "BDHP", "BUP", "GSAP"}) // long match stratum
			}
			if run%1597 == 11 {
				return genHaulTrace(r, "direct", false) // volume stratum
			}
			pg := defaultPGen()
			pg.flagsNTL = 0.2
			fams := []string{"copyback", "periodic", "runs", "zeroprefix_runs", "iid1", "iid2", "fib", "zeroheavy"}
			return genParserTrace(r, tier, ptOpts{types: parserTypes, pg: pg, families: fams, wrapShare: 0.05,
				tweak: func(r *RNG, p *ParserSpec) {
					if r.Chance(0.3) && p.BufferSize < 64 {
						p.BufferSize = 64 + r.Intn(200)
						if p.ShrinkSize >= p.BufferSize {
							p.ShrinkSize = p.BufferSize / 2
						}
					}
					if r.Chance(0.4) {
						p.BlockSize = 32 + r.Intn(64)
					}
					if r.Chance(0.15) {
						if p.Type == "GSAP" || p.Type == "OSAP" {
							p.WindowSize = 2
							if p.Type == "GSAP" {
								p.MinMatchLen = 2
							}
						} else {
							p.WindowSize = 1
						}
					}
					if p.Type == "BUP" && r.Chance(0.4) {
						p.HashBits = 1
						p.BucketSize = r.Pick(128, 10, 4)
					}
				}})
		},
		Exec:     execParser("C19"),
		NonTriv:  func(res *Result) bool { return pr(res, "run_block") || pr(res, "match_len>=16") },
		MustFire: []string{"len_mod_8=0", "len_mod_8=1", "len_mod_8=2", "len_mod_8=3", "len_mod_8=4", "len_mod_8=5", "len_mod_8=6", "len_mod_8=7", "backward_checked", "run_block", "run_block_zero_byte", "run_block_ws_1"},
		Rule:     "inputs rich in long matches and runs (all byte values incl. 0x00), all parsers/configs/histories; non-trivial = a block of >= 32 equal bytes was parsed or a match of length >= 16 was emitted",
		Quick:    100000, Thorough: 3000000, Real: realParser, Stub: stubParser})

	// ---------------------------------------------------------------- C12
	register(&Prop{ID: "C12",
		Gen: func(r *RNG, tier string, run int) *Trace {
			if run%211 == 5 {
				return genSAGrow(r, "GSAP")
			}
			if run%5 == 3 {
				return genGSAPSmallBlocks(r)
			}
			if run%53 == 9 {
				return genLongMatch(r, []string{"GSAP"}) // long match stratum
			}
			pg := defaultPGen()
			pg.wReadAt = 0
			pg.nOps = 40
			return genParserTrace(r, tier, ptOpts{types: []string{"GSAP"}, pg: pg, classW: []int{40, 50, 10, 0},
				families: []string{"iid2", "iid3", "iid4", "copyback", "periodic", "runs", "fib", "thue", "debruijn", "zeroheavy", "tandem", "nested", "powers", "powers"},
				tweak: func(r *RNG, p *ParserSpec) {
					if r.Chance(0.5) {
						p.WindowSize = p.BufferSize + r.Intn(4) // clause 2 applies
					}
					if r.Chance(0.3) && p.BufferSize < 130 {
						p.BufferSize = 130 + r.Intn(200)
						p.ShrinkSize = r.Intn(p.BufferSize)
						p.WindowSize = p.BufferSize
					}
				}})
		},
		Exec:     execParser("C12"),
		NonTriv:  func(res *Result) bool { return pr(res, "gsap_match_checked") && res.Probes["block_with_seq"] > 0 },
		MustFire: []string{"gsap_match_checked", "refill_after_shrink", "reset", "shrink_discarded", "ntl_with_seq"},
		Rule:     "GSAP only, histories with second and later fills, Shrink, Reset, both flags, no Parse(nil); oracle = brute-force longest previous match; non-trivial = at least one emitted match was compared with the brute force",
		Quick:    50000, Thorough: 1500000, Real: realParser, Stub: stubParser})

	// ---------------------------------------------------------------- C11
	register(&Prop{ID: "C11",
		Gen: func(r *RNG, tier string, run int) *Trace {
			if run%101 == 5 {
				// volume stratum: more than 64 KiB (128 KiB) under one sort, a second
				// sort with little new data, lengths that are no multiple of 64 KiB;
				// high-entropy data so that the indexed optimiser stays cheap
				return genSAGrow(r, "OSAP")
			}
			pg := defaultPGen()
			pg.wReadAt = 0
			pg.nOps = 30
			pg.flagsNTL = 0.2
			return genParserTrace(r, tier, ptOpts{types: []string{"OSAP"}, pg: pg, classW: []int{55, 45, 0, 0},
				families: []string{"iid2", "iid3", "iid4", "copyback", "periodic", "runs", "fib", "thue", "debruijn", "tandem", "nested", "powers", "powers"},
				tweak: func(r *RNG, p *ParserSpec) {
					if p.BufferSize > 120 {
						p.BufferSize = 17 + r.Intn(100)
						if p.ShrinkSize >= p.BufferSize {
							p.ShrinkSize = p.BufferSize / 2
						}
					}
				}})
		},
		Exec:     execParser("C11"),
		NonTriv:  func(res *Result) bool { return pr(res, "osap_multi_seq") },
		MustFire: []string{"osap_block_checked", "osap_multi_seq", "shrink_discarded", "refill_after_shrink"},
		Rule:     "OSAP only, tiny/small geometry, histories with several fills, Shrink, Reset, NoTrailingLiterals blocks in between; oracle = independent O(n*window*len) dynamic program; non-trivial = a checked block with >= 2 sequences",
		Quick:    60000, Thorough: 1800000, Real: realParser, Stub: stubParser})

	// ---------------------------------------------------------------- C16 (clause 2; clause 1 is the config world)
	register(&Prop{ID: "C16",
		Gen: func(r *RNG, tier string, run int) *Trace {
			if run%401 == 7 {
				return genBigWrite(r) // buffers of whole MiB filled to the brim and parsed to the end
			}
			if run%211 == 5 {
				return genSAGrow(r, r.pickStr("GSAP", "GSAP", "OSAP"))
			}
			if run%20 == 7 {
				// suffix sorter stress (see C01): a wrong suffix array mostly shows
				// as a panic in suffix.LCP or a Sort that does not return
				return genSorterStress(r)
			}
			if r.Chance(0.25) {
				return genConfigTrace(r)
			}
			pg := defaultPGen()
			pg.wNil = 2
			pg.plan = planOpts{chunk: true, faults: true, dead: true}
			pg.aliasReset = true
			pg.oversizeReset = true
			return genParserTrace(r, tier, ptOpts{types: parserTypes, pg: pg, wrapShare: 0.4,
				tweak: func(r *RNG, p *ParserSpec) {
					// boundary accepted configurations
					switch r.Intn(9) {
					case 0:
						p.ShrinkSize = p.BufferSize
					case 1:
						p.BufferSize = r.Range(1, 3) // BufferSize < InputLen
						p.ShrinkSize = 0
					case 2:
						p.WindowSize = 1
						if p.Type == "GSAP" {
							p.WindowSize = 2
							p.MinMatchLen = 2
						}
					case 3:
						p.BlockSize = 1
					case 4:
						p.HashBits, p.HashBits1, p.HashBits2 = 0, 0, 0
					case 5:
						if p.Type == "OSAP" {
							p.MaxMatchLen = p.MinMatchLen
						}
					case 6:
						p.BufferSize = 1
						p.ShrinkSize = 0
					case 7:
						il := p.InputLen
						if il == 0 {
							il = 3
						}
						if p.Type == "HP" || p.Type == "BHP" {
							p.HashBits = min(8*il, 14)
						}
					}
				}})
		},
		Exec: func(t *Trace) *Result {
			if t.World == "config" {
				return runConfigTrace(t, "C16")
			}
			return runParserTrace(t, "C16", nil, 0, 0)
		},
		NonTriv: func(res *Result) bool {
			return res.Probes["cfg_checked"] > 0 || (res.OpsDone > 10 && pr(res, "buffer_full", "wrap_multiple_fills"))
		},
		MustFire: []string{"cfg_checked", "cfg_rejected", "cfg_accepted", "wrap_eof", "wrap_reader_error_surfaced", "buffer_full", "reset_oversize"},
		Rule:     "clause 1: arbitrary field values incl. negative/zero/boundary, NewParser error <=> Verify(defaults(cfg)) error, no panic; clause 2: boundary accepted configs driven through >= 3 fills in direct and Wrap mode with reader faults; non-trivial = config clause evaluated, or > 10 ops with a full buffer",
		Quick:    120000, Thorough: 3600000, Real: realParser, Stub: stubParser})

	// ---------------------------------------------------------------- C08
	register(&Prop{ID: "C08",
		Gen: func(r *RNG, tier string, run int) *Trace {
			if run%797 == 11 {
				return genHaulTrace(r, "wrap", false) // volume stratum
			}
			pg := defaultPGen()
			faults := run%2 == 1
			pg.plan = planOpts{chunk: true, faults: faults, dead: faults}
			if run%5 == 3 {
				pg.wNil = 2 // skips through the wrapper stream the reader like any Parse
			}
			t := genParserTrace(r, tier, ptOpts{types: parserTypes, pg: pg, wrapShare: 1.0,
				tweak: func(r *RNG, p *ParserSpec) {
					if r.Chance(0.3) {
						p.BlockSize = maxInt(1, p.BufferSize/r.Pick(1, 2, 3, 4))
					}
				}})
			if r.Chance(0.35) {
				// stream lengths and fault / EOF positions exactly at the fill
				// boundaries BufferSize + m*(BufferSize-ShrinkSize)
				bc := t.P.defaults()
				step := bc.BufferSize - bc.ShrinkSize
				if step < 1 {
					step = 1
				}
				at := bc.BufferSize + r.Intn(4)*step
				if r.Chance(0.3) {
					at = r.Intn(4) * maxInt(1, bc.BlockSize)
				}
				if at <= 20000 {
					if r.Chance(0.5) || at > len(t.Input) {
						fam := inputFamilies[r.Intn(len(inputFamilies))]
						t.Input = genInput(r, at, fam)
						if t.P.Plan == nil {
							t.P.Plan = &RPlan{}
						}
						t.P.Plan.EOFWithData = r.Chance(0.7)
						if r.Chance(0.5) {
							t.P.Plan.Cuts = nil
							t.P.Plan.ByteFrom, t.P.Plan.ByteTo, t.P.Plan.MaxChunk = 0, 0, 0
						}
					} else if faults && t.P.Plan != nil {
						t.P.Plan.Events = append(t.P.Plan.Events, REvent{At: at - r.Intn(3), Kind: "err", Keep: r.Intn(3), ID: 77})
					}
				}
			} else if faults && t.P.Plan != nil && len(t.P.Plan.Events) > 0 {
				// stratified placement of the first fault over the stream
				n := len(t.Input)
				if n > 0 {
					for i := range t.P.Plan.Events {
						if t.P.Plan.Events[i].Kind != "zero" {
							t.P.Plan.Events[i].At = (run / 2) % (n + 1)
							break
						}
					}
				}
			}
			return t
		},
		Exec: runC08,
		NonTriv: func(res *Result) bool {
			return pr(res, "wrap_multiple_fills") && (pr(res, "c08_twin_compared") || len(res.Fired) > 0)
		},
		MustFire: []string{"wrap_eof", "wrap_eof_again", "wrap_reader_error_surfaced", "wrap_multiple_fills", "c08_twin_compared"},
		Rule:     "Wrap mode on all parsers; even runs: fault-free chunk plans compared block-for-block with a one-shot reader (metamorphic); odd runs: reader errors with/without data, transient/sticky/dead, first fault stratified over the stream; non-trivial = input longer than BufferSize and a non-trivial chunk or fault plan",
		Quick:    60000, Thorough: 1800000, Real: realParser, Stub: stubParser})

	// ---------------------------------------------------------------- C13
	register(&Prop{ID: "C13",
		Gen:      genC13,
		Exec:     runC13,
		NonTriv:  func(res *Result) bool { return res.NonTrivial },
		MustFire: []string{"switch_inside_call", "reset_with_data", "c13_reset_compared", "c13_determinism_compared", "task_HP", "task_BHP", "task_DHP", "task_BDHP", "task_BUP", "task_GSAP", "task_OSAP"},
		Rule:     "oracle 1: arbitrary prefix history, Reset, suffix trace vs fresh parser with the same suffix; oracle 2: same trace twice => identical observations and tick counts; oracle 3 (multi world): K=2..4 instances as goroutines under the seeded scheduler, interleaved observations == solo observations; non-trivial = prefix with a fill and a shrink (oracle 1) or >= 2 switches inside library calls (oracle 3)",
		Quick:    24000, Thorough: 720000, Real: append(realParser, realDecoder...), Stub: append(stubParser, "goroutine scheduler (baton passing at generated yield points)")})

	// ---------------------------------------------------------------- decoder world
	register(&Prop{ID: "C04",
		Gen: func(r *RNG, tier string, run int) *Trace {
			g := dgen{nOps: 60, sizes: "fit", readBias: 6, resetW: 1, firstFault: -1}
			// every third run: plain writes and trailing literals of any size
			// (a Decoder splits them; a DecoderBuffer refuses what cannot fit,
			// which leaves the stream unchanged); sequences still fit
			g.bigLits = run%3 == 1
			if run%1597 == 11 || run%1597 == 811 {
				g.geomClass, g.nOps = "wide", 40 // volume stratum
			}
			if run%797 == 5 {
				g.geomClass, g.nOps, g.bigLits = "mega", 20, false // windows and first write of 1 MiB and more
			}
			if run%4 == 3 {
				// stratum with a partially accepting / failing writer: "each byte
				// once and in order" must also hold when WriteTo/Flush is retried
				g.wfaults, g.retry, g.firstFault = true, 0.7, (run/4)%10
			}
			return genDecoderTrace(r, g)
		},
		Exec:     execDecoder("C04"),
		NonTriv:  func(res *Result) bool { return pr(res, "decoder_shrink_inside_call") || pr(res, "partial_read_cursor") },
		MustFire: []string{"overlap_copy_doubling", "window_probe_at_limit", "partial_read_cursor", "decoder_shrink_inside_call", "byteatend_at_limit", "reset"},
		Rule:     "DecoderBuffer and Decoder, geometries 1 <= WS < BS incl. BS = WS+1 and BS < 2*WS, valid operands sized <= min(WS, BS-WS), fault-free writer; non-trivial = an in-call shrink or a read cursor strictly inside the data",
		Quick:    400000, Thorough: 12000000, Real: realDecoder, Stub: stubDecoder})

	register(&Prop{ID: "C05",
		Gen: func(r *RNG, tier string, run int) *Trace {
			g := dgen{nOps: 50, sizes: "any", malformed: 0.33, readBias: 5, resetW: 1}
			if run%1597 == 11 || run%1597 == 811 {
				g.geomClass, g.nOps = "wide", 40 // volume stratum
			}
			return genDecoderTrace(r, g)
		},
		Exec: execDecoder("C05"),
		NonTriv: func(res *Result) bool {
			return pr(res, "malformed_in_nonempty_buffer", "malformed_match_offbig", "malformed_match_off0")
		},
		MustFire: []string{"malformed_off0", "malformed_offbig", "malformed_litlen", "malformed_rawoff", "malformed_rawlit", "malformed_after_valid_prefix", "malformed_rejected", "malformed_match_off0", "malformed_match_offbig"},
		Rule:     "corruption faults (Offset/LitLen over the full uint32 range, offset 0, offset beyond the window limit) in about 1 of 3 blocks/matches, in buffer states reached by arbitrary histories; non-trivial = a malformed item reached the decoder in a non-empty buffer",
		Quick:    400000, Thorough: 12000000, Real: realDecoder, Stub: stubDecoder})

	register(&Prop{ID: "C06",
		Gen: func(r *RNG, tier string, run int) *Trace {
			// a third of the faulting writers also answers (0, nil) now and then:
			// C06 only presupposes that the writer returns
			g := dgen{nOps: 30, sizes: "huge", malformed: 0.1, readBias: 3, resetW: 1, wfaults: r.Chance(0.3), retry: 0.5, nilWrites: run%3 == 0, deadWriter: run%5 == 2}
			if run%1597 == 11 || run%1597 == 811 {
				g.geomClass, g.sizes = "wide", "any" // volume stratum
			}
			return genDecoderTrace(r, g)
		},
		Exec:     execDecoder("C06"),
		NonTriv:  func(res *Result) bool { return pr(res, "arg_gt_bs_minus_ws", "seq_gt_bs_minus_ws") },
		MustFire: []string{"arg_gt_bs_minus_ws", "arg_gt_bs", "seq_gt_bs_minus_ws"},
		Rule:     "argument sizes stratified relative to BS-WS (smaller, equal, larger, larger than BS, raw 32-bit lengths), all geometries, valid and corrupted arguments, writers with and without faults; verdict = per-call tick budget and writer-call bound; non-trivial = a call with an argument larger than BS-WS",
		Quick:    400000, Thorough: 12000000, Real: realDecoder, Stub: stubDecoder})

	register(&Prop{ID: "C17",
		Gen: func(r *RNG, tier string, run int) *Trace {
			g := dgen{nOps: 60, sizes: "any", malformed: 0.1, readBias: 9, resetW: 1, firstFault: -1}
			if run%1597 == 11 {
				g.geomClass, g.nOps = "wide", 40 // volume stratum
			}
			if run%797 == 5 {
				g.geomClass, g.nOps, g.sizes = "mega", 20, "fit"
			}
			if run%4 == 3 {
				// calls stopped early by a writer error (also inside the chunked
				// Write of oversize trailing literals): counts must still be exact
				g.wfaults, g.retry, g.firstFault = true, 0.7, (run/4)%12
				g.target = "decoder"
			}
			return genDecoderTrace(r, g)
		},
		Exec:     execDecoder("C17"),
		NonTriv:  func(res *Result) bool { return pr(res, "decoder_shrink_inside_call") },
		MustFire: []string{"decoder_shrink_inside_call", "shrink_with_read_bytes", "early_error_with_progress"},
		Rule:     "profile biased to a full buffer with already-read bytes followed by calls that discard and append, and calls stopped early by an error; non-trivial = a call that shrank the buffer and appended",
		Quick:    400000, Thorough: 12000000, Real: realDecoder, Stub: stubDecoder})

	register(&Prop{ID: "C18",
		Gen: func(r *RNG, tier string, run int) *Trace {
			cls := "tiny"
			if r.Chance(0.3) {
				cls = "small"
			}
			// every third run: plain writes and trailing literals larger than the
			// free space (Decoder.Write chunks them; sequences still fit)
			if run%1597 == 11 || run%1597 == 811 {
				cls = "wide" // volume stratum: flushes of hundreds of KiB meet the faults
			}
			if run%797 == 5 {
				cls = "mega"
			}
			return genDecoderTrace(r, dgen{target: "decoder", nOps: 30, sizes: "fit", readBias: 4, resetW: 1, wfaults: true, retry: 0.9, firstFault: run % 14, geomClass: cls, bigLits: run%3 == 2})
		},
		Exec: execDecoder("C18"),
		NonTriv: func(res *Result) bool {
			return pr(res, "writer_fault_during_WriteBlock", "writer_fault_during_Write", "writer_fault_during_WriteByte", "writer_fault_during_flush")
		},
		MustFire: []string{"writer_fault_during_WriteBlock", "writer_fault_during_Write", "writer_fault_during_flush", "retry_writeblock", "retry_flush"},
		Rule:     "Decoder with SimWriter fault plans: first fault stratified over the writer-call index, multiple faults, bursts, accept counts 0..len-1, small geometries, items sized <= min(WS, BS-WS); client follows the documented retry protocol; non-trivial = a writer fault was hit during a call",
		Quick:    400000, Thorough: 12000000, Real: realDecoder, Stub: stubDecoder})

	register(&Prop{ID: "C07",
		Gen:  genC07,
		Exec: execDecoder("C07"),
		NonTriv: func(res *Result) bool {
			return pr(res, "block_with_seq", "overlap_copy") && pr(res, "decoder_drained", "decoder_shrink_inside_call")
		},
		MustFire: []string{"bl_gt_ws", "default_buffer", "seq_gt_ws", "block_with_seq", "decoder_drained"},
		Rule:     "pipe world: every parser type, any BlockSize incl. > WindowSize, long runs, paired with Decoder{WindowSize: W, BufferSize: 0 or random > W}; plus synthetic well-formed block streams fed to a Decoder; non-trivial = a block with a sequence and a decoder drain",
		Quick:    16000, Thorough: 480000, Real: append(realParser, realDecoder...), Stub: append(stubParser, stubDecoder...)})
}

// genLongMatch is the "long match" stratum: streams built so that a single
// match of 64 KiB and more is available (a record of 64..140 KiB occurring
// twice, adjacent or apart, with a nearer shorter copy in between, or a byte
// run of that length), with lengths at and next to multiples of 65536, the
// repeat at, next to and beyond the window limit, a run that starts exactly
// on a block boundary behind 64 KiB and more of incompressible data, and a
// short self-repeating head in front of more than 2^18 bytes. One Write or
// ReadFrom of everything, then Parse to the end.
func genLongMatch(r *RNG, types []string) *Trace {
	typ := types[r.Intn(len(types))]
	L := r.Pick(65535, 65536, 65537, 65538, 65539, 70000, 100000, 131072, 131073, 131074)
	if r.Chance(0.2) {
		L = r.Range(60000, 140000)
	}
	if typ == "OSAP" {
		L = r.Pick(65535, 65536, 65537, 66000) // its path search costs n x MaxMatchLen
	}
	X := genInput(r, L, r.pickStr("iid256", "iid256", "iid256", "copyback256", "iid16"))
	pre := genInput(r, r.Pick(0, 1, 7, 100, 100, 3000), r.pickStr("iid256", "copyback", "periodic", "iid2"))
	tail := genInput(r, r.Pick(0, 1, 2, 3, 8, 300), "iid256")
	mid := genInput(r, r.Pick(0, 0, 1, 100, 5000), "iid256")
	B := r.Pick(0, 1<<16, 1<<16, 1<<16+1, 1<<17, L+5, 2*L, 4096)
	var in []byte
	dist := L // distance of the long repeat
	layout := r.Intn(8)
	switch layout {
	case 0: // adjacent repeat
		in = append(append(append(in, pre...), X...), X...)
	case 1: // repeat with a gap
		in = append(append(append(append(in, pre...), X...), mid...), X...)
		dist = L + len(mid)
	case 2: // a farther full copy and a nearer shorter one
		l2 := r.Pick(65536, 65537, 65600, L-1, L/2)
		if l2 >= L || l2 < 1 {
			l2 = L / 2
		}
		in = append(append(append(append(append(in, pre...), X...), mid...), X[:l2]...), byte(r.Intn(256)))
		in = append(in, X...)
		dist = L + len(mid) + l2 + 1
	case 3: // a byte run
		c := byte(r.Intn(256))
		in = append(in, pre...)
		for i := 0; i < L+r.Intn(4); i++ {
			in = append(in, c)
		}
		dist = 1
	case 4: // incompressible blocks, then a run that starts on a block boundary
		bl := B
		if bl == 0 {
			bl = 128 << 10
		}
		if bl > 1<<17 {
			bl, B = 1<<16, 1<<16
		}
		k := (65536+bl-1)/bl + r.Intn(2)
		in = append(in, genInput(r, k*bl, "iid256")...)
		c := byte(r.Intn(256))
		for i := 0; i < 2*bl+r.Intn(40); i++ {
			in = append(in, c)
		}
		dist = 1
	case 6: // a phrase twice, then more than 64 KiB in which nothing repeats, all in one block
		ph := genInput(r, r.Pick(8, 40, 300), "iid256")
		in = append(append(append(append(in, pre...), ph...), genInput(r, r.Pick(0, 5, 1000), "iid256")...), ph...)
		in = append(in, genInput(r, r.Pick(65536, 65537, 70000, 100000), "iid256")...)
		if B != 0 && B < len(in) {
			B = r.Pick(0, len(in), 1<<17)
		}
		dist = 0
	case 5: // a long periodic stretch: one self-overlapping match with an offset that is no power of two
		unit := genInput(r, r.Pick(3, 5, 7, 600, 1000, 65537, 70000), "iid256")
		in = append(in, pre...)
		for len(in) < len(pre)+2*L {
			in = append(in, unit...)
		}
		dist = len(unit)
	default: // X twice behind a head that repeats itself
		head := genInput(r, r.Pick(12, 40, 200), r.pickStr("copyback", "periodic", "iid2"))
		in = append(append(append(in, head...), X...), X...)
	}
	in = append(in, tail...)
	n := len(in)
	if B > n {
		B = n
	}
	spec := ParserSpec{Type: typ, BufferSize: n + r.Pick(0, 1, 8, 1000, n), BlockSize: B, ShrinkSize: r.Pick(0, 1, 4096)}
	spec.WindowSize = r.Pick(spec.BufferSize, spec.BufferSize, spec.BufferSize, 0, dist, dist, dist-1, dist+1, 1<<16, 1<<16+1, L/2)
	if spec.WindowSize < 8 {
		spec.WindowSize = spec.BufferSize
	}
	if spec.ShrinkSize >= spec.BufferSize {
		spec.ShrinkSize = 0
	}
	spec.HashBits, spec.HashBits1, spec.HashBits2 = r.Pick(0, 14, 16, 18), r.Pick(0, 12, 16), r.Pick(0, 14, 18)
	spec.InputLen = r.Pick(0, 0, 3, 4, 6)
	if typ == "BUP" {
		spec.HashBits, spec.BucketSize = r.Pick(12, 14, 16), r.Pick(0, 2, 4, 10, 16)
	}
	if typ == "GSAP" || typ == "OSAP" {
		spec.MinMatchLen = r.Pick(0, 2, 3)
	}
	if typ == "OSAP" {
		spec.MaxMatchLen = r.Pick(0, 0, 273, 64)
	}
	t := &Trace{World: "parser", P: &spec, Input: in}
	t.Note = fmt.Sprintf("long-match layout=%d L=%d dist=%d", layout, L, dist)
	t.Ops = append(t.Ops, Op{K: r.pickStr("Write", "Write", "ReadFrom"), N: n})
	bl := B
	if bl == 0 {
		bl = 128 << 10
	}
	for i := n/bl + 3; i > 0; i-- {
		op := Op{K: "Parse", Re: r.Chance(0.8)}
		if r.Chance(0.3) {
			op.F = lz.NoTrailingLiterals
			if i > 1 {
				t.Ops = append(t.Ops, op) // the handed back tail needs a call of its own
			}
		}
		t.Ops = append(t.Ops, op)
	}
	return t
}

// genBigWrite: a parser with a buffer of 1 to 3 MiB whose first Write (and the
// first Write after Reset(nil)) hands over 1 MiB and more in one slice, with
// probes of the retained bytes after each step.
func genBigWrite(r *RNG) *Trace {
	typ := r.pickStr("HP", "BHP", "DHP", "BDHP", "BUP")
	bs := r.Pick(1<<20, 1<<20+1, 1<<20+7, 1<<20+8, 3<<19, 2<<20, 3<<20)
	spec := ParserSpec{Type: typ, BufferSize: bs, WindowSize: r.Pick(0, bs, 1<<16, 1<<20), BlockSize: r.Pick(0, 1<<16, 1<<17),
		ShrinkSize: r.Pick(0, 1, 1<<16, bs/2), HashBits: r.Pick(10, 12, 14), HashBits1: r.Pick(8, 12), HashBits2: r.Pick(10, 14), BucketSize: r.Pick(2, 4)}
	if spec.WindowSize != 0 && spec.WindowSize > bs {
		spec.WindowSize = bs
	}
	n := bs + r.Intn(bs/2)
	t := &Trace{World: "parser", P: &spec, Input: genInput(r, n, r.pickStr("iid256", "copyback256", "iid16", "runs"))}
	t.Note = "big first write"
	first := r.Pick(1<<20, 1<<20-1, 1<<20+1, bs, bs-7, bs-8, bs+1)
	probe := func(k int) {
		for ; k > 0; k-- {
			t.Ops = append(t.Ops, genReadAtOp(r, bs))
		}
	}
	t.Ops = append(t.Ops, Op{K: r.pickStr("Write", "Write", "ReadFrom"), N: first})
	probe(3)
	k := r.Intn(4)
	if r.Chance(0.4) {
		k = bs/(64<<10) + 2 // to the very end of the filled buffer (blocks of 64 or 128 KiB)
	}
	for i := k; i > 0; i-- {
		t.Ops = append(t.Ops, Op{K: "Parse", Re: true})
	}
	probe(2)
	t.Ops = append(t.Ops, Op{K: "Shrink"}, Op{K: "Write", N: r.Pick(1, 1000, 1<<16, bs)})
	probe(2)
	t.Ops = append(t.Ops, Op{K: "Parse", Re: true}, Op{K: "Reset"}, Op{K: "Write", N: r.Pick(1<<20, 1<<20+2, bs)})
	probe(3)
	t.Ops = append(t.Ops, Op{K: "Parse", Re: true}, Op{K: "Parse", Re: true})
	probe(2)
	return t
}

// genGSAPSmallBlocks: GSAP, one fill of 100..600 bytes over a tiny alphabet
// parsed in blocks of 4..31 bytes, most of them with NoTrailingLiterals, no
// Shrink or Reset in between: the bookkeeping of positions handed back and
// parsed again (rank set members removed and re-inserted, word boundaries of
// the set) under many block ends per sort.
func genGSAPSmallBlocks(r *RNG) *Trace {
	n := r.Range(100, 600)
	if r.Chance(0.3) {
		n = 64*r.Range(1, 8) + r.Pick(-1, 0, 1, 2, 3)
	}
	spec := ParserSpec{Type: "GSAP", BufferSize: n + r.Intn(8), BlockSize: r.Range(4, 31), MinMatchLen: r.Pick(0, 2, 3, 3)}
	spec.WindowSize = spec.BufferSize + r.Intn(3)
	spec.ShrinkSize = r.Intn(spec.BufferSize)
	t := &Trace{World: "parser", P: &spec, Input: genInput(r, n, r.pickStr("iid2", "iid3", "iid3", "runs", "periodic", "copyback"))}
	t.Note = "gsap small blocks"
	fed := 0
	for fed < n {
		k := n - fed
		if r.Chance(0.3) {
			k = 1 + r.Intn(k)
		}
		t.Ops = append(t.Ops, Op{K: "Write", N: k})
		fed += k
		for i := k/spec.BlockSize + 2; i > 0; i-- {
			op := Op{K: "Parse", Re: r.Chance(0.7)}
			if r.Chance(0.7) {
				op.F = lz.NoTrailingLiterals
			}
			t.Ops = append(t.Ops, op)
		}
	}
	return t
}

// genSAGrow: a suffix-array parser with a buffer of several hundred KiB that
// is filled in two or three steps without Shrink or Reset: 64 KiB and more are
// parsed and still buffered when more data arrives and is sorted in.
func genSAGrow(r *RNG, typ string) *Trace {
	a := r.Range(66000, 100000)
	b := r.Range(2, 5) * (16 << 10)
	if typ == "OSAP" {
		a = r.Range(66000, 70000)
	}
	bs := a + 2*b + r.Intn(1<<16)
	spec := ParserSpec{Type: typ, BufferSize: bs, WindowSize: r.Pick(bs, bs, 1<<16, 0), BlockSize: r.Pick(16<<10, 32<<10, 64<<10), MinMatchLen: r.Pick(0, 2, 3), ShrinkSize: r.Pick(0, 1<<16)}
	t := &Trace{World: "parser", P: &spec, Input: genInput(r, a+2*b, r.pickStr("iid256", "copyback256", "iid16", "bigrecords"))}
	t.Note = "sa grow"
	for _, k := range []int{a, b, b} {
		t.Ops = append(t.Ops, Op{K: r.pickStr("Write", "ReadFrom"), N: k})
		for i := k/spec.BlockSize + 2; i > 0; i-- {
			t.Ops = append(t.Ops, Op{K: "Parse", Re: true})
		}
		if r.Chance(0.2) {
			break
		}
	}
	return t
}
