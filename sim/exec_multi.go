package main

import (
	"fmt"
	"sort"

	"github.com/ulikunitz/lz/simyield"
)

// multisim: K tasks, each owning one parser or decoder instance with its own
// trace, run as real goroutines under a seeded cooperative scheduler. A baton
// (one channel per task) ensures that only the task chosen by the scheduler
// runs; the Go runtime never decides who runs, so GOMAXPROCS is irrelevant.
//
// Exploring mode draws directives (site, occurrence) per task from the task's
// solo profile (site-stratified long suspension) or tick countdowns
// (tick-sliced) and records the executed schedule as explicit segments.
// Replay mode follows the recorded segments verbatim.

type mtask struct {
	id      int
	tr      *Trace
	clk     *taskClock
	wake    chan struct{}
	done    bool
	started bool
	res     *Result
	solo    *Result
	profile []int64 // solo site hits

	// directive
	dirSite  int
	dirOcc   int64
	stopAt   int64 // park when clk.ticks reaches this value (0: none)
	parkedAt int   // decision index at which the task parked
	segStart int64
}

type schedEvent struct {
	task     int
	finished bool
	site     int
}

type scheduler struct {
	tasks          []*mtask
	events         chan schedEvent
	rng            *RNG
	segs           []Seg
	mode           string // stratified | sliced | replay
	mean           int
	hintFunc       string // function in which the task that just parked is suspended
	focus          string // stratified mode: library function in which this run concentrates its suspensions ("" = none)
	switchesInCall int
}

func (s *scheduler) point(c *taskClock, site int) {
	t := s.tasks[c.task]
	park := false
	if t.stopAt > 0 && c.ticks >= t.stopAt {
		park = true
	} else if t.dirSite >= 0 && site == t.dirSite && c.hits[site] >= t.dirOcc {
		park = true
	}
	if !park {
		return
	}
	t.stopAt = 0
	t.dirSite = -1
	s.events <- schedEvent{task: t.id, site: site}
	<-t.wake
	curClock = c
}

func runTaskTrace(tr *Trace, want string, clk *taskClock) *Result {
	switch tr.World {
	case "decoder":
		return runDecoderTrace(tr, want, clk)
	default:
		return runParserTrace(tr, want, clk, 0, 0)
	}
}

// soloProfile runs a task alone and records its site profile.
func soloRun(tr *Trace, want string) (*Result, []int64) {
	clk := &taskClock{hits: make([]int64, simyield.NumSites)}
	curClock = clk
	res := runTaskTrace(tr, want, clk)
	return res, clk.hits
}

func (s *scheduler) newDirective(t *mtask) {
	t.dirSite = -1
	t.stopAt = 0
	hint := s.hintFunc
	s.hintFunc = ""
	switch s.mode {
	case "sliced":
		// geometric countdown with the run's mean
		n := int64(1)
		for s.rng.Float() > 1.0/float64(s.mean) && n < int64(s.mean)*20 {
			n++
		}
		t.stopAt = t.clk.ticks + n
	case "stratified":
		var cand, same []int
		for site, total := range t.profile {
			if total > t.clk.hits[site] {
				cand = append(cand, site)
				if hint != "" && simyield.SiteFunc[site] == hint {
					same = append(same, site)
				}
			}
		}
		if len(cand) == 0 {
			return
		}
		var inFocus []int
		if s.focus != "" {
			for _, site := range cand {
				if simyield.SiteFunc[site] == s.focus {
					inFocus = append(inFocus, site)
				}
			}
		}
		if len(inFocus) > 0 && s.rng.Chance(0.8) {
			// focus: most suspensions of this run happen inside one function
			// that at least two tasks execute, so that every function of the
			// library gets runs in which two instances overlap inside it
			cand = inFocus
		} else if len(same) > 0 && s.rng.Chance(0.6) {
			// rendezvous: park this task inside the function in which the
			// previous task is suspended (shared scratch is only harmful when
			// two instances are inside the same code at overlapping times)
			cand = same
		}
		site := cand[s.rng.Intn(len(cand))]
		rem := t.profile[site] - t.clk.hits[site]
		t.dirSite = site
		t.dirOcc = t.clk.hits[site] + 1 + int64(s.rng.Intn(int(min64(rem, 1<<30))))
	}
}

func min64(a, b int64) int64 {
	if a < b {
		return a
	}
	return b
}

// runMulti executes the tasks of t interleaved. If t.Sched is non-nil it is
// replayed verbatim, otherwise a schedule is explored from rng and recorded
// into t.Sched.
func runMulti(t *Trace, want string, rng *RNG) (results []*Result, switches int) {
	s := &scheduler{events: make(chan schedEvent), rng: rng}
	replay := t.Sched != nil
	if replay {
		s.mode = "replay"
	} else if rng.Chance(0.75) {
		s.mode = "stratified"
	} else {
		s.mode = "sliced"
		s.mean = []int{1, 3, 10, 50, 300, 2000}[rng.Intn(6)]
	}
	for i, tr := range t.Tasks {
		mt := &mtask{id: i, tr: tr, wake: make(chan struct{}), dirSite: -1}
		mt.clk = &taskClock{hits: make([]int64, simyield.NumSites), sched: s, task: i}
		s.tasks = append(s.tasks, mt)
	}
	if s.mode == "stratified" {
		for _, mt := range s.tasks {
			mt.solo, mt.profile = soloRun(mt.tr, want)
		}
	}
	if s.mode == "stratified" && rng.Chance(0.7) {
		// functions executed by at least two tasks, in site order (deterministic)
		cnt := map[string]int{}
		for _, mt := range s.tasks {
			seen := map[string]bool{}
			for site, total := range mt.profile {
				if f := simyield.SiteFunc[site]; total > 0 && !seen[f] {
					seen[f] = true
					cnt[f]++
				}
			}
		}
		var shared []string
		done := map[string]bool{}
		for site := 0; site < simyield.NumSites; site++ {
			if f := simyield.SiteFunc[site]; cnt[f] >= 2 && !done[f] {
				done[f] = true
				shared = append(shared, f)
			}
		}
		if len(shared) > 0 {
			s.focus = shared[rng.Intn(len(shared))]
			if rng.Chance(0.5) {
				// half of the focused runs pick among the five shared functions
				// that are executed least often (Shrink/Reset paths): hot loops
				// overlap by chance anyway, rarely executed code does not
				hits := map[string]int64{}
				for _, mt := range s.tasks {
					for site, total := range mt.profile {
						hits[simyield.SiteFunc[site]] += total
					}
				}
				rare := append([]string(nil), shared...)
				sort.SliceStable(rare, func(i, j int) bool { return hits[rare[i]] < hits[rare[j]] })
				if len(rare) > 5 {
					rare = rare[:5]
				}
				s.focus = rare[rng.Intn(len(rare))]
			}
		}
	}
	for _, mt := range s.tasks {
		mt := mt
		go func() {
			<-mt.wake
			curClock = mt.clk
			mt.res = runTaskTrace(mt.tr, want, mt.clk)
			s.events <- schedEvent{task: mt.id, finished: true}
		}()
	}
	remaining := len(s.tasks)
	decision := 0
	segIdx := 0
	last := -1
	for remaining > 0 {
		var next *mtask
		var segTicks int64
		if replay {
			for segIdx < len(t.Sched.Segs) {
				sg := t.Sched.Segs[segIdx]
				segIdx++
				if sg.Task >= 0 && sg.Task < len(s.tasks) && !s.tasks[sg.Task].done {
					next = s.tasks[sg.Task]
					segTicks = sg.Ticks
					break
				}
			}
			if next == nil {
				for _, mt := range s.tasks {
					if !mt.done {
						next = mt
						break
					}
				}
			}
			next.stopAt = 0
			if segTicks > 0 {
				next.stopAt = next.clk.ticks + segTicks
			}
		} else {
			// not yet started tasks first (uniform), then the longest parked
			var fresh []*mtask
			for _, mt := range s.tasks {
				if !mt.started {
					fresh = append(fresh, mt)
				}
			}
			switch {
			case len(fresh) > 0:
				next = fresh[rng.Intn(len(fresh))]
			case s.mode == "sliced":
				var cand []*mtask
				for _, mt := range s.tasks {
					if !mt.done && (mt.id != last || remaining == 1) {
						cand = append(cand, mt)
					}
				}
				next = cand[rng.Intn(len(cand))]
			default:
				for _, mt := range s.tasks {
					if mt.done {
						continue
					}
					if next == nil || mt.parkedAt < next.parkedAt {
						next = mt
					}
				}
			}
			s.newDirective(next)
		}
		next.started = true
		next.segStart = next.clk.ticks
		curClock = next.clk
		next.wake <- struct{}{}
		ev := <-s.events
		et := s.tasks[ev.task]
		ran := et.clk.ticks - et.segStart
		decision++
		et.parkedAt = decision
		last = et.id
		if ev.finished {
			et.done = true
			remaining--
			if !replay {
				s.segs = append(s.segs, Seg{Task: et.id, Ticks: 0})
			}
		} else {
			switches++
			s.hintFunc = simyield.SiteFunc[ev.site]
			if !replay {
				s.segs = append(s.segs, Seg{Task: et.id, Ticks: ran, Site: ev.site})
			}
		}
	}
	curClock = nil
	if !replay {
		t.Sched = &Sched{Segs: s.segs}
	}
	for _, mt := range s.tasks {
		results = append(results, mt.res)
	}
	return results, switches
}

// checkMulti is oracle 3 of C13: each task's interleaved observations (and
// tick counts) must equal its solo observations.
func checkMulti(t *Trace, want string, rng *RNG) *Result {
	res := newResult()
	solos := make([]*Result, len(t.Tasks))
	for i, tr := range t.Tasks {
		solos[i], _ = soloRun(tr, "C13")
	}
	inter, switches := runMulti(t, "C13", rng)
	res.Probes["multi_switches"] += switches
	if switches >= 1 {
		res.Probes["switch_inside_call"]++
	}
	for i := range inter {
		res.Ticks += inter[i].Ticks
		res.Obs = append(res.Obs, inter[i].Obs...)
		res.ObsTicks = append(res.ObsTicks, inter[i].ObsTicks...)
		res.Probes["task_"+taskKind(t.Tasks[i])]++
		for k, v := range inter[i].Probes {
			res.Probes[k] += v
		}
		a, b := solos[i], inter[i]
		if firstObsDiff(a, b, false) < 0 && firstObsDiff(a, b, true) >= 0 {
			// same observations, different amount of work: recorded, not a
			// verdict (the property speaks about emitted blocks)
			res.Probes["interleaved_ticks_differ_only"]++
		}
		if t.Tasks[i].World == "decoder" {
			// the property speaks about the blocks parsers emit; a decoder
			// bystander that behaves differently is recorded, not a verdict
			if firstObsDiff(a, b, false) >= 0 {
				res.Probes["decoder_bystander_differs"]++
			}
			continue
		}
		if d := firstObsDiff(a, b, false); d >= 0 {
			res.Viol = &Violation{Prop: "C13", Clause: "interference", Step: d,
				Msg: fmt.Sprintf("task %d (%s): operation %d observed %q when run alone and %q when interleaved with other instances", i, taskKind(t.Tasks[i]), d, obsAt(a, d), obsAt(b, d))}
			return res
		}
	}
	if t.Sched != nil {
		h := uint64(14695981039346656037)
		for _, sg := range t.Sched.Segs {
			for _, v := range []uint64{uint64(sg.Task), uint64(sg.Site), uint64(sg.Ticks)} {
				h ^= v
				h *= 1099511628211
			}
		}
		res.SchedHash = h
	}
	res.NonTrivial = switches >= 2
	res.States[fmt.Sprintf("multi|k=%d|sw=%d", len(t.Tasks), bucket(switches))] = true
	return res
}

func bucket(n int) int {
	b := 0
	for n > 0 {
		b++
		n >>= 1
	}
	return b
}

func taskKind(t *Trace) string {
	if t.World == "decoder" {
		return "decoder_" + t.D.Target
	}
	return t.P.Type
}

func obsAt(r *Result, i int) string {
	if i < len(r.Obs) {
		s := r.Obs[i]
		if len(s) > 160 {
			s = s[:160] + "…"
		}
		return s
	}
	if r.Aborted != "" {
		return "<aborted: " + r.Aborted + ">"
	}
	return "<nothing>"
}

// firstObsDiff returns the index of the first differing observation, -1 if equal.
func firstObsDiff(a, b *Result, withTicks bool) int {
	n := len(a.Obs)
	if len(b.Obs) < n {
		n = len(b.Obs)
	}
	for i := 0; i < n; i++ {
		if a.Obs[i] != b.Obs[i] {
			return i
		}
		if withTicks && a.ObsTicks[i] != b.ObsTicks[i] {
			return i
		}
	}
	if len(a.Obs) != len(b.Obs) {
		return n
	}
	if a.Aborted != b.Aborted {
		return n
	}
	return -1
}
