package main

import (
	"encoding/binary"
	"encoding/json"
	"flag"
	"fmt"
	"os"
	"os/exec"
	"path/filepath"
	"sort"
	"strconv"
	"strings"
	"syscall"
	"time"

	"github.com/ulikunitz/lz/simyield"
)

// lzsim: deterministic simulation of ulikunitz/lz with fault injection.
//
//	lzsim run    -prop C01 -tier quick -seed 1 -workers 16 -evidence F -replays DIR -known F
//	lzsim worker -prop C01 -tier quick -seed 1 -shard i/n -out F        (internal)
//	lzsim replay -file F
//	lzsim gen    -prop C01 -tier quick -seed 1 -run 7                   (print one trace)
//
// Exit codes: 0 property held on everything explored (known findings are
// printed as KNOWN-FINDING lines), 1 violation (VIOLATION line), 2
// infrastructure trouble (never a VIOLATION).

func main() {
	simyield.Hook = tickHook
	if len(os.Args) < 2 {
		fmt.Fprintln(os.Stderr, "usage: lzsim run|worker|replay|gen ...")
		os.Exit(2)
	}
	switch os.Args[1] {
	case "run":
		os.Exit(cmdRun(os.Args[2:]))
	case "worker":
		os.Exit(cmdWorker(os.Args[2:]))
	case "replay":
		os.Exit(cmdReplay(os.Args[2:]))
	case "gen":
		os.Exit(cmdGen(os.Args[2:]))
	case "digest":
		os.Exit(cmdDigest(os.Args[2:]))
	case "neutral":
		os.Exit(cmdNeutral(os.Args[2:]))
	}
	fmt.Fprintln(os.Stderr, "unknown command", os.Args[1])
	os.Exit(2)
}

func makeTrace(p *Prop, seed uint64, tier string, run int) *Trace {
	rs := RunSeed(seed, p.ID, run)
	t := p.Gen(NewRNG(rs), tier, run)
	t.Prop = p.ID
	t.Seed = rs
	t.Run = run
	return t
}

func cmdGen(args []string) int {
	fs := flag.NewFlagSet("gen", flag.ExitOnError)
	prop := fs.String("prop", "C01", "")
	tier := fs.String("tier", "quick", "")
	seed := fs.Uint64("seed", 1, "")
	run := fs.Int("run", 0, "")
	fs.Parse(args)
	p := props[*prop]
	if p == nil {
		fmt.Fprintln(os.Stderr, "unknown property")
		return 2
	}
	os.Stdout.Write(makeTrace(p, *seed, *tier, *run).JSON())
	fmt.Println()
	return 0
}

// ---------------------------------------------------------------------------
// worker

type WorkerOut struct {
	Shard       int               `json:"shard"`
	Runs        int               `json:"runs"`
	NonTrivial  int               `json:"nontrivial"`
	OpsTotal    int64             `json:"ops_total"`
	TicksTotal  int64             `json:"ticks_total"`
	Probes      map[string]int    `json:"probes"`
	Fired       map[string]int    `json:"fired"`
	Others      map[string]int    `json:"others"`
	Aborted     map[string]int    `json:"aborted"`
	States      []string          `json:"states"`
	Violations  []WorkerViolation `json:"violations"`
	Known       map[string]int    `json:"known"`
	KnownSample map[string]string `json:"known_sample"`
	MaxCall     int64             `json:"max_call"`
	MaxCallBud  int64             `json:"max_call_budget"`
	Samples     []*Trace          `json:"samples"`
	RunDigests  map[string]uint64 `json:"run_digests"` // sampled runs -> digest (determinism self-check)
	Truncated   bool              `json:"truncated"`
	Scheds      []uint64          `json:"scheds,omitempty"` // multi world: hashes of executed schedules
	WallS       float64           `json:"wall_s"`
}

type WorkerViolation struct {
	Run       int        `json:"run"`
	Viol      *Violation `json:"viol"`
	Replay    string     `json:"replay"`
	OpsBefore int        `json:"ops_before"`
	OpsAfter  int        `json:"ops_after"`
	Tries     int        `json:"tries"`
}

type KnownFinding struct {
	Property string `json:"property"`
	ID       string `json:"id"`
	Status   string `json:"status"` // open | fixed
	Sig      string `json:"sig"`
	Commit   string `json:"commit,omitempty"`
	Text     string `json:"text"`
}

func loadKnown(path string) []KnownFinding {
	var kf struct {
		Findings []KnownFinding `json:"findings"`
	}
	if path == "" {
		return nil
	}
	b, err := os.ReadFile(path)
	if err != nil {
		return nil
	}
	if err := json.Unmarshal(b, &kf); err != nil {
		fmt.Fprintln(os.Stderr, "lzsim: cannot parse known findings:", err)
		os.Exit(2)
	}
	return kf.Findings
}

func isKnown(known []KnownFinding, v *Violation) *KnownFinding {
	if v.Sig == "" {
		return nil
	}
	for i := range known {
		k := &known[i]
		if k.Status == "open" && k.Property == v.Prop && k.Sig == v.Sig {
			return k
		}
	}
	return nil
}

func replayName(id string, seed uint64, run int, label string) string {
	if label != "" {
		return fmt.Sprintf("%s-s%d-%s.json", id, seed, label)
	}
	return fmt.Sprintf("%s-s%d-r%d.json", id, seed, run)
}

// corpusVariants returns the kept trace itself followed by n seeded
// variations of it: a few input bytes replaced by other bytes of the input,
// the input rotated or truncated, buffer geometry nudged. The variations are a
// pure function of (trace, VERIF_SEED, index).
func corpusVariants(t *Trace, seed uint64, idx, n int) []*Trace {
	out := []*Trace{t.Clone()}
	r := NewRNG(RunSeed(seed, "corpus", idx))
	mutateInput := func(in []byte) []byte {
		in = append([]byte(nil), in...)
		if len(in) == 0 {
			return in
		}
		switch r.Intn(4) {
		case 0, 1:
			for k := 1 + r.Intn(3); k > 0; k-- {
				in[r.Intn(len(in))] = in[r.Intn(len(in))]
			}
		case 2:
			k := r.Intn(len(in))
			in = append(in[k:], in[:k]...)
		default:
			in = in[:len(in)-r.Intn(min(len(in), 8))]
		}
		return in
	}
	for i := 0; i < n; i++ {
		c := t.Clone()
		c.Input = mutateInput(c.Input)
		for _, tk := range c.Tasks {
			tk.Input = mutateInput(tk.Input)
		}
		if c.P != nil && r.Chance(0.3) {
			switch r.Intn(3) {
			case 0:
				c.P.BlockSize += r.Intn(3)
			case 1:
				c.P.WindowSize += r.Intn(3)
			default:
				if c.P.BufferSize > 0 {
					c.P.BufferSize += r.Intn(3)
				}
			}
		}
		c.Sched = nil
		out = append(out, c)
	}
	return out
}

func cmdWorker(args []string) int {
	fs := flag.NewFlagSet("worker", flag.ExitOnError)
	prop := fs.String("prop", "", "")
	tier := fs.String("tier", "quick", "")
	seed := fs.Uint64("seed", 1, "")
	shard := fs.String("shard", "0/1", "")
	out := fs.String("out", "", "")
	replays := fs.String("replays", "", "")
	knownPath := fs.String("known", "", "")
	runs := fs.Int("runs", 0, "")
	maxsec := fs.Float64("maxsec", 0, "")
	shadow := fs.Bool("shadow", false, "only execute the sampled runs (determinism self-check)")
	corpus := fs.String("corpus", "", "directory with kept counterexamples (<dir>/<property>/*.json)")
	fs.Parse(args)
	p := props[*prop]
	if p == nil {
		fmt.Fprintln(os.Stderr, "unknown property", *prop)
		return 2
	}
	var si, sn int
	fmt.Sscanf(*shard, "%d/%d", &si, &sn)
	known := loadKnown(*knownPath)
	start := time.Now()
	wo := &WorkerOut{Shard: si, Probes: map[string]int{}, Fired: map[string]int{}, Others: map[string]int{}, Aborted: map[string]int{},
		Known: map[string]int{}, KnownSample: map[string]string{}, RunDigests: map[string]uint64{}}
	states := map[string]bool{}
	var digests []uint64
	var doneRuns []int // runs executed by this process so far, in order
	const sampleEvery = 40
	// process executes one trace and accounts for it; run < 0 marks a corpus
	// trace (label names it). It returns true when the worker has to stop.
	process := func(run int, label string, t *Trace) bool {
		res := p.Exec(t)
		prior := doneRuns
		if run >= 0 {
			doneRuns = append(doneRuns, run)
		}
		wo.Runs++
		wo.OpsTotal += int64(res.OpsDone)
		wo.TicksTotal += res.Ticks
		for k, v := range res.Probes {
			wo.Probes[k] += v
		}
		for k, v := range res.Fired {
			wo.Fired[k] += v
		}
		for k, v := range res.Others {
			wo.Others[k] += v
		}
		if res.Aborted != "" {
			r := res.Aborted
			if i := strings.IndexAny(r, ":("); i > 0 {
				r = r[:i]
			}
			wo.Aborted[r]++
		}
		for k := range res.States {
			states[k] = true
		}
		if res.MaxCall > wo.MaxCall {
			wo.MaxCall, wo.MaxCallBud = res.MaxCall, res.MaxCallBud
		}
		if res.SchedHash != 0 {
			wo.Scheds = append(wo.Scheds, res.SchedHash)
		}
		d := res.Digest()
		if run >= 0 && run%sampleEvery == 0 {
			wo.RunDigests[strconv.Itoa(run)] = d
			wo.RunDigests["obs"+strconv.Itoa(run)] = res.ObsDigest()
		}
		nt := res.NonTrivial || (p.NonTriv != nil && p.NonTriv(res))
		if nt {
			wo.NonTrivial++
			digests = append(digests, d)
		}
		if len(wo.Samples) < 2 && nt && len(t.JSON()) < 6000 {
			wo.Samples = append(wo.Samples, t)
		}
		if res.Viol != nil && !*shadow {
			if k := isKnown(known, res.Viol); k != nil {
				wo.Known[k.ID]++
				if wo.KnownSample[k.ID] == "" {
					wo.KnownSample[k.ID] = fmt.Sprintf("run %d: %s", run, res.Viol.Msg)
				}
				return false
			}
			// minimise, then confirm in a fresh process; a violation that
			// depends on process-wide library state needs its history
			before := len(t.Ops)
			orig := t.Clone()
			mt, mv := shrinkTrace(p, t, res.Viol, 60*time.Second)
			path := filepath.Join(*replays, replayName(p.ID, *seed, run, label))
			os.MkdirAll(*replays, 0o755)
			write := func(tr *Trace, v *Violation, hist []int) bool {
				c := tr.Clone()
				c.Expect = &Expect{Prop: v.Prop, Clause: v.Clause, Msg: v.Msg, Step: v.Step, Sig: v.Sig}
				c.History = nil
				if len(hist) > 0 {
					c.History = &History{Seed: *seed, Tier: *tier, Runs: hist}
				}
				if err := os.WriteFile(path, c.JSON(), 0o644); err != nil {
					fmt.Fprintln(os.Stderr, "lzsim: cannot write replay:", err)
					os.Exit(2)
				}
				self, _ := os.Executable()
				err := exec.Command(self, "replay", "-file", path, "-quiet").Run()
				ee, ok := err.(*exec.ExitError)
				return ok && ee.ExitCode() == 1
			}
			final := mt
			switch {
			case write(mt, mv, nil):
			case write(orig, res.Viol, nil):
				final, mv = orig, res.Viol
			case write(orig, res.Viol, prior):
				// reproduces with the history of this worker: minimise the history
				final, mv = orig, res.Viol
				hist := append([]int(nil), prior...)
				deadline := time.Now().Add(90 * time.Second)
				for chunk := len(hist) / 2; chunk >= 1 && time.Now().Before(deadline); {
					progress := false
					for i := 0; i+chunk <= len(hist) && time.Now().Before(deadline); {
						cand := append(append([]int(nil), hist[:i]...), hist[i+chunk:]...)
						if write(orig, res.Viol, cand) {
							hist = cand
							progress = true
							continue
						}
						i += chunk
					}
					if !progress || chunk == 1 {
						chunk /= 2
					}
				}
				write(orig, res.Viol, hist)
				wo.Probes["violation_needed_process_history"]++
			default:
				write(mt, mv, nil) // leave the minimised trace; the driver reports non-reproduction
			}
			wo.Violations = append(wo.Violations, WorkerViolation{Run: run, Viol: mv, Replay: path, OpsBefore: before, OpsAfter: len(final.Ops)})
			return true // first unknown violation ends this worker
		}
		return false
	}
	// regression corpus: kept counterexamples of earlier findings for this
	// property (and seeded variations of them) are executed before the seeded
	// runs, by shard 0 only
	stopped := false
	if si == 0 && !*shadow && *corpus != "" {
		files, _ := filepath.Glob(filepath.Join(*corpus, p.ID, "*.json"))
		sort.Strings(files)
		for fi, f := range files {
			b, err := os.ReadFile(f)
			if err != nil {
				fmt.Fprintln(os.Stderr, "lzsim: corpus:", err)
				return 2
			}
			var ct Trace
			if err := json.Unmarshal(b, &ct); err != nil {
				fmt.Fprintln(os.Stderr, "lzsim: corpus:", f, err)
				return 2
			}
			ct.Prop, ct.Expect, ct.History = p.ID, nil, nil
			name := strings.TrimSuffix(filepath.Base(f), ".json")
			for vi, vt := range corpusVariants(&ct, *seed, fi, 60) {
				wo.Probes["corpus_traces_executed"]++
				if stopped = process(-1-vi, fmt.Sprintf("corpus-%s-v%d", name, vi), vt); stopped {
					break
				}
			}
			if stopped {
				break
			}
		}
	}
	for run := si; run < *runs && !stopped; run += sn {
		if *shadow && run%sampleEvery != 0 {
			continue
		}
		// the cap is on the CPU time of this worker, so that the number of runs
		// a tier completes does not depend on what else the machine is doing
		// (with a wall clock safety net at four times the cap)
		if *maxsec > 0 && (cpuSeconds() > *maxsec || time.Since(start).Seconds() > 4**maxsec) {
			wo.Truncated = true
			break
		}
		t := makeTrace(p, *seed, *tier, run)
		if os.Getenv("LZSIM_TRACE") != "" {
			fmt.Fprintf(os.Stderr, "run %d\n", run)
		}
		t0 := time.Now()
		stop := process(run, "", t)
		if v := os.Getenv("LZSIM_SLOW"); v != "" { // diagnostics: list runs slower than v seconds
			if lim, err := strconv.ParseFloat(v, 64); err == nil && time.Since(t0).Seconds() > lim {
				spec := ""
				if t.P != nil {
					spec = t.P.String()
				}
				fmt.Fprintf(os.Stderr, "SLOW run %d %.1fs world=%s note=%q %s ops=%d\n", run, time.Since(t0).Seconds(), t.World, t.Note, spec, len(t.Ops))
			}
		}
		if stop {
			break
		}
	}
	for k := range states {
		wo.States = append(wo.States, k)
	}
	sort.Strings(wo.States)
	wo.WallS = time.Since(start).Seconds()
	b, _ := json.Marshal(wo)
	if err := os.WriteFile(*out, b, 0o644); err != nil {
		fmt.Fprintln(os.Stderr, err)
		return 2
	}
	db := make([]byte, 8*len(digests))
	for i, d := range digests {
		binary.LittleEndian.PutUint64(db[8*i:], d)
	}
	os.WriteFile(*out+".dig", db, 0o644)
	return 0
}

// ---------------------------------------------------------------------------
// replay

func cmdReplay(args []string) int {
	fs := flag.NewFlagSet("replay", flag.ExitOnError)
	file := fs.String("file", "", "")
	quiet := fs.Bool("quiet", false, "")
	fs.Parse(args)
	b, err := os.ReadFile(*file)
	if err != nil {
		fmt.Fprintln(os.Stderr, err)
		return 2
	}
	var t Trace
	if err := json.Unmarshal(b, &t); err != nil {
		fmt.Fprintln(os.Stderr, err)
		return 2
	}
	p := props[t.Prop]
	if p == nil {
		fmt.Fprintln(os.Stderr, "unknown property in replay file")
		return 2
	}
	if t.History != nil {
		for _, r := range t.History.Runs {
			p.Exec(makeTrace(p, t.History.Seed, t.History.Tier, r))
		}
	}
	res := p.Exec(&t)
	if res.Viol == nil {
		if !*quiet {
			fmt.Printf("replay: no violation (ops %d, ticks %d, aborted=%q)\n", res.OpsDone, res.Ticks, res.Aborted)
		}
		return 0
	}
	fmt.Printf("replay: %s\n", res.Viol.String())
	if t.Expect != nil && t.Expect.Clause != res.Viol.Clause {
		fmt.Printf("replay: DIFFERENT clause than recorded (%s)\n", t.Expect.Clause)
		return 3
	}
	fmt.Printf("VIOLATION property=%s replay=%s\n", t.Prop, *file)
	return 1
}

// ---------------------------------------------------------------------------
// run (driver)

type Evidence struct {
	PropertyID  string                 `json:"property_id"`
	Tier        string                 `json:"tier"`
	Seed        int64                  `json:"seed"`
	Level       string                 `json:"level"`
	Coverage    map[string]interface{} `json:"coverage"`
	Assumptions []string               `json:"assumptions"`
	WallS       float64                `json:"wall_s"`
	Violations  int                    `json:"violations"`
}

func cmdRun(args []string) int {
	fs := flag.NewFlagSet("run", flag.ExitOnError)
	prop := fs.String("prop", "", "")
	tier := fs.String("tier", "quick", "")
	seed := fs.Uint64("seed", 1, "")
	workers := fs.Int("workers", 16, "")
	evidence := fs.String("evidence", "", "")
	replays := fs.String("replays", "replays", "")
	knownPath := fs.String("known", "", "")
	runsFlag := fs.Int("runs", 0, "override the number of runs")
	div := fs.Int("div", 1, "divide the tier's number of runs (reduced exploration, e.g. cross matrix)")
	maxsec := fs.Float64("maxsec", 0, "CPU time cap per worker in seconds (0: tier default)")
	tmp := fs.String("tmp", os.TempDir(), "")
	corpus := fs.String("corpus", "", "directory with kept counterexamples (<dir>/<property>/*.json)")
	fs.Parse(args)
	p := props[*prop]
	if p == nil {
		fmt.Fprintln(os.Stderr, "unknown property", *prop)
		return 2
	}
	start := time.Now()
	runs := p.Quick
	cap := 100.0
	if *tier == "thorough" {
		runs = p.Thorough
		cap = 1500
	}
	if *runsFlag > 0 {
		runs = *runsFlag
	}
	if *div > 1 {
		runs = runs / *div
	}
	if *maxsec > 0 {
		cap = *maxsec
	}
	fmt.Printf("lzsim: property %s tier %s VERIF_SEED=%d runs=%d workers=%d yield-points=%d\n", p.ID, *tier, *seed, runs, *workers, simyield.NumSites)
	self, _ := os.Executable()
	dir, err := os.MkdirTemp(*tmp, "lzsim-out-")
	if err != nil {
		fmt.Fprintln(os.Stderr, err)
		return 2
	}
	defer os.RemoveAll(dir)
	type proc struct {
		cmd *exec.Cmd
		out string
	}
	var procs []proc
	launch := func(i int, shadow bool) proc {
		out := filepath.Join(dir, fmt.Sprintf("w%d-%v.json", i, shadow))
		a := []string{"worker", "-prop", p.ID, "-tier", *tier, "-seed", fmt.Sprint(*seed), "-shard", fmt.Sprintf("%d/%d", i, *workers),
			"-out", out, "-replays", *replays, "-known", *knownPath, "-runs", fmt.Sprint(runs), "-maxsec", fmt.Sprint(cap), "-corpus", *corpus}
		if shadow {
			a = append(a, "-shadow", "-shard", "0/1")
		}
		c := exec.Command(self, a...)
		c.Stdout = os.Stdout
		c.Stderr = os.Stderr
		c.Env = append(os.Environ(), "GOMAXPROCS=2")
		if shadow {
			c.Env = append(os.Environ(), "GOMAXPROCS=1")
		}
		if err := c.Start(); err != nil {
			fmt.Fprintln(os.Stderr, err)
			os.Exit(2)
		}
		return proc{c, out}
	}
	for i := 0; i < *workers; i++ {
		procs = append(procs, launch(i, false))
	}
	shadowProc := launch(0, true)
	infra := false
	for _, pc := range append(procs, shadowProc) {
		if err := pc.cmd.Wait(); err != nil {
			fmt.Fprintln(os.Stderr, "lzsim: worker failed:", err)
			infra = true
		}
	}
	if infra {
		return 2
	}
	// merge
	tot := &WorkerOut{Probes: map[string]int{}, Fired: map[string]int{}, Others: map[string]int{}, Aborted: map[string]int{},
		Known: map[string]int{}, KnownSample: map[string]string{}, RunDigests: map[string]uint64{}}
	states := map[string]bool{}
	distinct := map[uint64]bool{}
	scheds := map[uint64]bool{}
	read := func(path string) *WorkerOut {
		var wo WorkerOut
		b, err := os.ReadFile(path)
		if err != nil || json.Unmarshal(b, &wo) != nil {
			fmt.Fprintln(os.Stderr, "lzsim: cannot read worker output", path)
			os.Exit(2)
		}
		return &wo
	}
	for _, pc := range procs {
		wo := read(pc.out)
		tot.Runs += wo.Runs
		tot.NonTrivial += wo.NonTrivial
		tot.OpsTotal += wo.OpsTotal
		tot.TicksTotal += wo.TicksTotal
		for k, v := range wo.Probes {
			tot.Probes[k] += v
		}
		for k, v := range wo.Fired {
			tot.Fired[k] += v
		}
		for k, v := range wo.Others {
			tot.Others[k] += v
		}
		for k, v := range wo.Aborted {
			tot.Aborted[k] += v
		}
		for k, v := range wo.Known {
			tot.Known[k] += v
		}
		for k, v := range wo.KnownSample {
			if tot.KnownSample[k] == "" {
				tot.KnownSample[k] = v
			}
		}
		for k, v := range wo.RunDigests {
			tot.RunDigests[k] = v
		}
		for _, s := range wo.States {
			states[s] = true
		}
		for _, h := range wo.Scheds {
			scheds[h] = true
		}
		tot.Violations = append(tot.Violations, wo.Violations...)
		if wo.MaxCall > tot.MaxCall {
			tot.MaxCall, tot.MaxCallBud = wo.MaxCall, wo.MaxCallBud
		}
		if len(tot.Samples) < 3 {
			tot.Samples = append(tot.Samples, wo.Samples...)
		}
		tot.Truncated = tot.Truncated || wo.Truncated
		if db, err := os.ReadFile(pc.out + ".dig"); err == nil {
			for i := 0; i+8 <= len(db); i += 8 {
				distinct[binary.LittleEndian.Uint64(db[i:])] = true
			}
		}
	}
	// determinism self-check: the shadow process re-executed the sampled runs
	sh := read(shadowProc.out)
	detChecked, detMismatch, tickMismatch := 0, 0, 0
	for k, v := range sh.RunDigests {
		if strings.HasPrefix(k, "obs") {
			continue
		}
		if pv, ok := tot.RunDigests[k]; ok {
			detChecked++
			if pv != v {
				if tot.RunDigests["obs"+k] == sh.RunDigests["obs"+k] {
					// identical observations, different tick counts: the library
					// did a different amount of work in the two processes (for
					// example a pool or cache); reported, not fatal
					tickMismatch++
					continue
				}
				detMismatch++
				fmt.Fprintf(os.Stderr, "lzsim: run %s produced digest %x in one process and %x in another\n", k, pv, v)
			}
		}
	}
	if len(tot.Samples) > 3 {
		tot.Samples = tot.Samples[:3]
	}
	if len(tot.Samples) == 0 {
		tot.Samples = append(tot.Samples, makeTrace(p, *seed, *tier, 0))
	}
	sort.Slice(tot.Violations, func(i, j int) bool { return tot.Violations[i].Run < tot.Violations[j].Run })

	// confirm violations by replaying the minimised file in a fresh process
	confirmed := 0
	exit := 0
	for _, v := range tot.Violations {
		c := exec.Command(self, "replay", "-file", v.Replay, "-quiet")
		outb, err := c.CombinedOutput()
		code := 0
		if ee, ok := err.(*exec.ExitError); ok {
			code = ee.ExitCode()
		} else if err != nil {
			code = 2
		}
		if code != 1 {
			fmt.Fprintf(os.Stderr, "lzsim: violation of run %d did not reproduce from %s in a fresh process (exit %d):\n%s\n", v.Run, v.Replay, code, outb)
			infra = true
			continue
		}
		confirmed++
		fmt.Printf("violation: %s (run %d, minimised %d -> %d ops)\n", v.Viol.String(), v.Run, v.OpsBefore, v.OpsAfter)
		fmt.Printf("VIOLATION property=%s replay=%s\n", p.ID, v.Replay)
		exit = 1
	}
	known := loadKnown(*knownPath)
	knownSeen := []string{}
	for _, k := range known {
		if k.Status == "open" && k.Property == p.ID && tot.Known[k.ID] > 0 {
			fmt.Printf("KNOWN-FINDING: property=%s %s: %s (seen in %d runs; e.g. %s)\n", p.ID, k.ID, k.Text, tot.Known[k.ID], tot.KnownSample[k.ID])
			knownSeen = append(knownSeen, k.ID)
		}
	}
	wall := time.Since(start).Seconds()
	unfired := []string{}
	for _, m := range p.MustFire {
		if tot.Probes[m] == 0 && tot.Fired[m] == 0 {
			unfired = append(unfired, m)
		}
	}
	var stateList []string
	for s := range states {
		stateList = append(stateList, s)
	}
	sort.Strings(stateList)
	var samples []interface{}
	for _, s := range tot.Samples {
		samples = append(samples, s)
	}
	dn := len(distinct)
	ev := Evidence{PropertyID: p.ID, Tier: *tier, Seed: int64(*seed), Level: "exploration", WallS: wall, Violations: confirmed,
		Coverage: map[string]interface{}{
			"evaluations":                           tot.Runs,
			"distinct_nontrivial":                   dn,
			"nontrivial_runs":                       tot.NonTrivial,
			"rule":                                  p.Rule,
			"samples":                               samples,
			"ops_total":                             tot.OpsTotal,
			"simulated_ticks_total":                 tot.TicksTotal,
			"runs_per_hour":                         int64(float64(tot.Runs) / wall * 3600),
			"verif_seed":                            *seed,
			"run_seed_derivation":                   "splitmix64(VERIF_SEED, property id, run index); run i is the same run for any worker count",
			"faults_fired":                          tot.Fired,
			"probes":                                tot.Probes,
			"probes_unfired":                        unfired,
			"abstract_states":                       len(states),
			"distinct_schedules_executed":           len(scheds),
			"context_switches_inside_library_calls": tot.Probes["multi_switches"],
			"abstract_state_measure":                "distinct (component, target, fill class, cursor/unparsed class, last operation) tuples visited after an operation",
			"max_ticks_per_call":                    tot.MaxCall,
			"tick_budget_of_that_call":              tot.MaxCallBud,
			"aborted_runs":                          tot.Aborted,
			"other_property_clauses_seen_not_reported_here": tot.Others,
			"known_findings_seen":                           knownSeen,
			"determinism_runs_reexecuted_in_second_process": detChecked,
			"determinism_digest_mismatches":                 detMismatch,
			"determinism_tick_only_mismatches":              tickMismatch,
			"truncated_by_cpu_time_cap":                     tot.Truncated,
			"yield_points":                                  simyield.NumSites,
			"real_components":                               p.Real,
			"stubbed_components":                            p.Stub,
			"workers":                                       *workers,
		},
		Assumptions: []string{
			map[bool]string{
				false: "readers and writers honour the io.Reader / io.Writer contracts and always return; readers return (0,nil) at most twice in a row; callers overwrite the buffer they passed to Write after the call and do not touch a slice handed to Reset until the next Reset",
				true:  "writers always return; a third of the faulting writers also answers with a short count and a NIL error now and then (outside the io.Writer contract: this property only presupposes that the writer returns)",
			}[p.ID == "C06"],
			"sampling, not proof: a clean batch is evidence proportional to the counts above",
			"the go/ast yield-point instrumentation does not change library behaviour (checked by the neutrality self-test)",
			"allocation failure, syscall failure, disk/network faults and clocks do not exist in this library and are not simulated",
		}}
	if *evidence != "" {
		os.MkdirAll(filepath.Dir(*evidence), 0o755)
		b, _ := json.MarshalIndent(ev, "", " ")
		if err := os.WriteFile(*evidence, b, 0o644); err != nil {
			fmt.Fprintln(os.Stderr, err)
			return 2
		}
	}
	fmt.Printf("lzsim: %s %s: runs=%d nontrivial=%d distinct=%d ops=%d ticks=%d states=%d aborted=%v others=%v unfired=%v det=%d/%d wall=%.1fs\n",
		p.ID, *tier, tot.Runs, tot.NonTrivial, dn, tot.OpsTotal, tot.TicksTotal, len(states), tot.Aborted, tot.Others, unfired, detChecked-detMismatch, detChecked, wall)
	if exit == 1 {
		// at least one violation was confirmed from its replay file in a
		// fresh process: that verdict stands, whatever else went wrong
		return 1
	}
	if infra {
		return 2
	}
	if detMismatch > 0 {
		fmt.Fprintln(os.Stderr, "lzsim: determinism self-check failed (infrastructure error, not a property verdict)")
		return 2
	}
	return exit
}

// ---------------------------------------------------------------------------
// self-tests

// cmdDigest executes runs [0,n) of a property in this process and prints one
// combined digest over all event logs and tick totals (determinism self-test:
// the value must not depend on process, GOMAXPROCS or worker count).
func cmdDigest(args []string) int {
	fs := flag.NewFlagSet("digest", flag.ExitOnError)
	prop := fs.String("prop", "C01", "")
	tier := fs.String("tier", "quick", "")
	seed := fs.Uint64("seed", 1, "")
	runs := fs.Int("runs", 200, "")
	fs.Parse(args)
	p := props[*prop]
	if p == nil {
		return 2
	}
	h := uint64(14695981039346656037)
	var ticks int64
	for run := 0; run < *runs; run++ {
		t := makeTrace(p, *seed, *tier, run)
		res := p.Exec(t)
		d := res.Digest()
		for i := 0; i < 8; i++ {
			h ^= (d >> (8 * uint(i))) & 0xff
			h *= 1099511628211
		}
		ticks += res.Ticks
		if t.Sched != nil {
			for _, sg := range t.Sched.Segs {
				h ^= uint64(sg.Task)<<40 ^ uint64(sg.Ticks)
				h *= 1099511628211
			}
		}
	}
	fmt.Printf("%s seed=%d runs=%d digest=%016x ticks=%d\n", p.ID, *seed, *runs, h, ticks)
	return 0
}

// cmdNeutral checks that the generated yield points do not change library
// behaviour: every run is executed with simyield.Hook == nil and with the tick
// hook; observations must be identical.
func cmdNeutral(args []string) int {
	fs := flag.NewFlagSet("neutral", flag.ExitOnError)
	prop := fs.String("prop", "C01", "")
	seed := fs.Uint64("seed", 1, "")
	runs := fs.Int("runs", 500, "")
	fs.Parse(args)
	p := props[*prop]
	if p == nil {
		return 2
	}
	bad := 0
	for run := 0; run < *runs; run++ {
		t := makeTrace(p, *seed, "quick", run)
		if t.World == "multi" {
			continue
		}
		simyield.Hook = nil
		a := p.Exec(t.Clone())
		simyield.Hook = tickHook
		b := p.Exec(t.Clone())
		if d := firstObsDiff(a, b, false); d >= 0 {
			bad++
			fmt.Printf("neutrality: %s run %d differs at op %d: %q vs %q\n", p.ID, run, d, obsAt(a, d), obsAt(b, d))
		}
	}
	fmt.Printf("neutrality %s: %d runs compared, %d differences\n", p.ID, *runs, bad)
	if bad > 0 {
		return 1
	}
	return 0
}

// cpuSeconds is the CPU time (user + system) this process has consumed.
func cpuSeconds() float64 {
	var ru syscall.Rusage
	if err := syscall.Getrusage(syscall.RUSAGE_SELF, &ru); err != nil {
		return 0
	}
	return float64(ru.Utime.Sec+ru.Stime.Sec) + float64(ru.Utime.Usec+ru.Stime.Usec)/1e6
}
