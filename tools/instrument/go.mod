module instrument

go 1.22
